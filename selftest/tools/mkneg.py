import subprocess,sys,os,re,json
def neg(name, path, edits, funcs, props):
    """apply edits (list of (old,new)) to /repo/<path> in a scratch copy, check build, run govc dev, save as negative control if nothing fails"""
    sc='/tmp/scneg'
    subprocess.check_call(['rsync','-a','--delete','--exclude','.git','--exclude','test_data','/repo/',sc+'/'])
    paths=path if isinstance(path,list) else [path]
    for pth,eds in (zip(paths,edits) if isinstance(path,list) else [(path,edits)]):
        s=open(sc+'/'+pth).read()
        for old,new in eds:
            assert s.count(old)>=1,(name,old[:50])
            s=s.replace(old,new,1)
        open(sc+'/'+pth,'w').write(s)
    r=subprocess.run('cd %s && go build ./src/... 2>&1 | head -5'%sc,shell=True,capture_output=True,text=True,env=dict(os.environ,GOFLAGS='-mod=mod',GOPROXY='off',GOSUMDB='off',GOTOOLCHAIN='local'))
    if r.stdout.strip():
        print(name,'DOES NOT BUILD',r.stdout[:300]); return
    d=subprocess.run('cd /tmp && diff -ruN --exclude=.git --exclude=test_data -x "*.orig" /repo/src %s/src | sed "s#^--- /repo/#--- a/#; s#^+++ %s/#+++ b/#"'%(sc,sc),shell=True,capture_output=True,text=True).stdout
    out=subprocess.run(['/verif/bin/govc','dev']+funcs.split(),capture_output=True,text=True,env=dict(os.environ,GOVC_REPO=sc,GOFLAGS='-mod=mod',GOPROXY='off',GOSUMDB='off',GOTOOLCHAIN='local')).stdout
    fails=[l.split()[-2] for l in out.splitlines() if l.strip().startswith('FAIL') and '/aux/' not in l]
    unsup=[l.strip()[:160] for l in out.splitlines() if 'UNSUPPORTED' in l or 'load error' in l]
    ok=not fails and not unsup
    print(name,'QUIET' if ok else 'ALARM',fails[:4],unsup[:2])
    open('/tmp/neg/%s.patch'%name,'w').write(d)
    json.dump({"patch":name+".patch","expect":"none","funcs":funcs,"properties":props},open('/tmp/neg/%s.json'%name,'w'))

def rename_local(path, func_header, renames):
    """edits for neg(): rename identifiers inside the body of the function whose header line starts with func_header"""
    s=open('/repo/'+path).read()
    i=s.index(func_header)
    j=s.index("\n}\n", i)+3
    body=s[i:j]
    nb=body
    for old,new in renames:
        nb=re.sub(r'(?<![\w.])'+re.escape(old)+r'\b', new, nb)
    return [(body,nb)]
