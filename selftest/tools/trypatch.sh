#!/bin/sh
# usage: trypatch.sh <patch file> <property>...
pf=$1; shift
cd /repo || exit 2
[ -z "$(git status --porcelain)" ] || { echo "/repo not clean"; exit 2; }
patch -p1 -s --no-backup-if-mismatch < $pf || { echo "patch does not apply"; git checkout -- .; exit 2; }
for p in "$@"; do
  /verif/check $p quick > /tmp/trypatch.$p.log 2>&1; echo "$(basename $pf) $p exit=$? $(grep VIOLATION /tmp/trypatch.$p.log | sed 's/.*obligation=//' | cut -c1-140 | head -5 | tr '\n' ';')"
done
git checkout -- .
