#!/usr/bin/env python3
"""Sanity check before committing evidence: every evidence file is a passing proof-level record."""
import json, glob, sys
bad = 0
for f in sorted(glob.glob('/verif/evidence/C*.json')):
    d = json.load(open(f))
    c = d['coverage']
    if c.get('discharged') != c.get('obligations') or d.get('violations'):
        print('NOT CLEAN', f, c.get('discharged'), c.get('obligations'), str(d.get('violations'))[:120]); bad += 1
print('evidence files clean' if not bad else f'{bad} evidence file(s) not clean')
sys.exit(1 if bad else 0)
