package node

import (
	"testing"

	"github.com/mosaicnetworks/babble/src/crypto/keys"
	hg "github.com/mosaicnetworks/babble/src/hashgraph"
	"github.com/mosaicnetworks/babble/src/peers"
)

// Replay of finding F4 (C14): a fast-forward response whose frame declares a validator set made of one
// fresh key, with a block built from that frame and signed by that key, is adopted by a node of a healthy
// network: nothing the node already knows is consulted.
func TestVerifReplayF4(t *testing.T) {
	cores := initConsensusHashgraph(t)
	c := cores[0]
	k, _ := keys.GenerateECDSAKey()
	stranger := peers.NewPeer(keys.PublicKeyHex(&k.PublicKey), "stranger:1", "stranger")
	frame := &hg.Frame{
		Round:    1000,
		Peers:    []*peers.Peer{stranger},
		Roots:    map[string]*hg.Root{},
		Events:   []*hg.FrameEvent{},
		PeerSets: map[int][]*peers.Peer{0: {stranger}},
	}
	block, err := hg.NewBlockFromFrame(999, frame)
	if err != nil {
		t.Fatal(err)
	}
	sig, err := block.Sign(k)
	if err != nil {
		t.Fatal(err)
	}
	block.SetSignature(sig)
	before := c.hg.Store.LastBlockIndex()
	if err := c.fastForward(block, frame); err == nil {
		t.Errorf("REPRODUCED F4: fastForward adopted a block signed only by a stranger (last block %d -> %d, validators now %d)",
			before, c.hg.Store.LastBlockIndex(), len(c.validators.Peers))
	}
}

// Replay of finding F9 (C08): a nil element in FastForwardResponse.Frame.Peers ("Peers":[null]) makes the
// catching-up node dereference it in peers.NewPeerSet.
func TestVerifReplayF9(t *testing.T) {
	cores := initConsensusHashgraph(t)
	c := cores[0]
	frame := &hg.Frame{Round: 5, Peers: []*peers.Peer{nil}, Roots: map[string]*hg.Root{}, Events: []*hg.FrameEvent{}, PeerSets: map[int][]*peers.Peer{}}
	block := &hg.Block{Signatures: map[string]string{}}
	func() {
		defer func() {
			if r := recover(); r != nil {
				t.Errorf("REPRODUCED F9: core.fastForward panicked on a frame with a nil peer: %v", r)
			}
		}()
		c.fastForward(block, frame)
	}()
}
