package vc

import (
	"fmt"
	"go/types"
	"strings"
)

// Sorts: Int (all integers, all references: pointers, maps, interfaces, funcs, chans; nil = 0), Bool,
// Str (opaque strings), Bytes (opaque []byte), Real (float64, only where float mode is off),
// S_<name> (struct values), Sl_<elem> (slices other than []byte).

const (
	SInt   = "Int"
	SBool  = "Bool"
	SStr   = "Str"
	SBytes = "Bytes"
	SReal  = "Real"
)

type structInfo struct {
	sort   string
	ctor   string
	fields []string // field names
	fsorts []string
	ftypes []types.Type
}

type Sorts struct {
	ctx     *Ctx
	structs map[string]*structInfo // by sort name
	byType  map[string]string      // types.TypeString -> sort (structs)
	slices  map[string]string // slice sort -> element sort
	strLits map[string]string // literal -> const name
	strUsed bool
	bytUsed bool
	vms     map[string][2]string
}

func NewSorts(ctx *Ctx) *Sorts {
	return &Sorts{ctx: ctx, structs: map[string]*structInfo{}, byType: map[string]string{}, slices: map[string]string{}, strLits: map[string]string{}, vms: map[string][2]string{}}
}

func (s *Sorts) needStr() {
	if s.strUsed {
		return
	}
	s.strUsed = true
	c := s.ctx
	c.DeclareSortRaw("Str", "(declare-sort Str 0)")
	c.DeclareConst("str_empty", "Str")
	c.DeclareFun("str_len", []string{"Str"}, "Int")
	c.DeclareFun("str_cat", []string{"Str", "Str"}, "Str")
	c.DeclareFun("str_sub", []string{"Str", "Int", "Int"}, "Str")
	c.DeclareFun("str_at", []string{"Str", "Int"}, "Int")
	c.DeclareFun("str_lt", []string{"Str", "Str"}, "Bool")
	c.DeclareFun("str_upper", []string{"Str"}, "Str")
	c.DeclareFun("str_of_int", []string{"Int"}, "Str")
	c.Axiom("(= (str_len str_empty) 0)")
}

func (s *Sorts) needBytes() {
	if s.bytUsed {
		return
	}
	s.bytUsed = true
	s.needStr()
	c := s.ctx
	c.DeclareSortRaw("Bytes", "(declare-sort Bytes 0)")
	c.DeclareConst("bytes_nil", "Bytes")
	c.DeclareConst("bytes_empty", "Bytes")
	c.DeclareFun("bytes_len", []string{"Bytes"}, "Int")
	c.DeclareFun("bytes_at", []string{"Bytes", "Int"}, "Int")
	c.DeclareFun("str_of_bytes", []string{"Bytes"}, "Str")
	c.DeclareFun("bytes_of_str", []string{"Str"}, "Bytes")
	c.Axiom("(= (bytes_len bytes_nil) 0)")
	c.Axiom("(= (bytes_len bytes_empty) 0)")
	c.Axiom("(not (= bytes_nil bytes_empty))")
}

// StrLit returns the constant for a string literal.
func (s *Sorts) StrLit(v string) Term {
	s.needStr()
	if v == "" {
		return Term{"str_empty", SStr}
	}
	if n, ok := s.strLits[v]; ok {
		return Term{n, SStr}
	}
	name := fmt.Sprintf("str_lit_%d_%s", len(s.strLits)+1, sanitize(trunc(v, 16)))
	s.ctx.DeclareConst(name, SStr)
	s.ctx.Axiom(fmt.Sprintf("(= (str_len %s) %d)", name, len(v)))
	for _, o := range s.strLits {
		s.ctx.Axiom(fmt.Sprintf("(not (= %s %s))", name, o))
	}
	s.ctx.Axiom(fmt.Sprintf("(not (= %s str_empty))", name))
	s.strLits[v] = name
	return Term{name, SStr}
}

func trunc(s string, n int) string {
	if len(s) > n {
		return s[:n]
	}
	return s
}

func isByteSlice(t types.Type) bool {
	if sl, ok := t.Underlying().(*types.Slice); ok {
		if b, ok := sl.Elem().Underlying().(*types.Basic); ok && (b.Kind() == types.Uint8) {
			return true
		}
	}
	return false
}

// SortOf maps a Go type to an SMT sort, declaring datatypes on demand.
func isGmap(t types.Type) (*types.Named, bool) {
	if a, ok := t.(*types.Alias); ok {
		t = types.Unalias(a)
	}
	if n, ok := t.(*types.Named); ok && n.Obj().Name() == "gmap" && n.TypeArgs() != nil && n.TypeArgs().Len() == 2 {
		return n, true
	}
	return nil, false
}

// VMSort declares the value-map datatype for key sort k and value sort v.
func (s *Sorts) VMSort(k, v string) string {
	name := "VM_" + mangle(k) + "__" + mangle(v)
	if _, ok := s.vms[name]; !ok {
		s.vms[name] = [2]string{k, v}
		s.ctx.DeclareSortRaw(name, fmt.Sprintf("(declare-datatypes ((%s 0)) (((mk_%s (%s.dom (Array %s Bool)) (%s.val (Array %s %s))))))", name, name, name, k, name, k, v))
	}
	return name
}

func (s *Sorts) VMDom(t Term) Term {
	kv := s.vms[t.Sort]
	return Term{fmt.Sprintf("(%s.dom %s)", t.Sort, t.S), ArraySort(kv[0], SBool)}
}

func (s *Sorts) VMVal(t Term) Term {
	kv := s.vms[t.Sort]
	return Term{fmt.Sprintf("(%s.val %s)", t.Sort, t.S), ArraySort(kv[0], kv[1])}
}

func (s *Sorts) MkVM(srt string, dom, val Term) Term {
	return Term{fmt.Sprintf("(mk_%s %s %s)", srt, dom.S, val.S), srt}
}

func (s *Sorts) SortOf(t types.Type) string {
	if n, ok := isGmap(t); ok {
		return s.VMSort(s.SortOf(n.TypeArgs().At(0)), s.SortOf(n.TypeArgs().At(1)))
	}
	switch u := t.Underlying().(type) {
	case *types.Basic:
		switch {
		case u.Info()&types.IsBoolean != 0:
			return SBool
		case u.Info()&types.IsInteger != 0:
			return SInt
		case u.Info()&types.IsString != 0:
			s.needStr()
			return SStr
		case u.Info()&types.IsFloat != 0:
			return SReal
		case u.Kind() == types.UnsafePointer, u.Kind() == types.UntypedNil:
			return SInt
		}
		return SInt
	case *types.Pointer, *types.Map, *types.Chan, *types.Signature, *types.Interface:
		return SInt
	case *types.Slice:
		if isByteSlice(t) {
			s.needBytes()
			return SBytes
		}
		es := s.SortOf(u.Elem())
		return s.sliceSort(es)
	case *types.Array:
		return ArraySort(SInt, s.SortOf(u.Elem()))
	case *types.Struct:
		return s.structSort(t, u)
	case *types.Tuple:
		return SInt
	case *types.TypeParam:
		return SInt
	}
	return SInt
}

func mangle(x string) string {
	r := strings.NewReplacer("(", "_", ")", "_", " ", "_", "/", "_", ".", "_", "*", "p", "[", "_", "]", "_", "{", "_", "}", "_", ";", "_", ",", "_", "-", "_", "\"", "_", ":", "_")
	return r.Replace(x)
}

func (s *Sorts) sliceSort(elem string) string {
	name := "Sl_" + mangle(elem)
	if _, ok := s.slices[name]; !ok {
		s.slices[name] = elem
		s.ctx.DeclareSortRaw(name, fmt.Sprintf("(declare-datatypes ((%s 0)) (((mk_%s (%s.arr (Array Int %s)) (%s.len Int) (%s.nil Bool)))))", name, name, name, elem, name, name))
	}
	return name
}

func shortTypeName(t types.Type) string {
	if n, ok := t.(*types.Named); ok {
		pkg := ""
		if n.Obj().Pkg() != nil {
			p := n.Obj().Pkg().Path()
			if i := strings.LastIndex(p, "/"); i >= 0 {
				p = p[i+1:]
			}
			pkg = p + "_"
		}
		return pkg + n.Obj().Name()
	}
	if a, ok := t.(*types.Alias); ok {
		return shortTypeName(types.Unalias(a))
	}
	return ""
}

func (s *Sorts) structSort(t types.Type, u *types.Struct) string {
	key := types.TypeString(t, nil)
	if srt, ok := s.byType[key]; ok {
		return srt
	}
	name := shortTypeName(t)
	if name == "" {
		name = fmt.Sprintf("anon%d", len(s.byType)+1)
	}
	srt := "S_" + mangle(name)
	for i := 2; s.structs[srt] != nil; i++ {
		srt = fmt.Sprintf("S_%s_%d", mangle(name), i)
	}
	s.byType[key] = srt
	si := &structInfo{sort: srt, ctor: "mk_" + srt}
	s.structs[srt] = si
	var parts []string
	for i := 0; i < u.NumFields(); i++ {
		f := u.Field(i)
		fs := s.SortOf(f.Type())
		fname := f.Name()
		if fname == "_" {
			fname = fmt.Sprintf("_blank%d", i)
		}
		si.fields = append(si.fields, fname)
		si.fsorts = append(si.fsorts, fs)
		si.ftypes = append(si.ftypes, f.Type())
		parts = append(parts, fmt.Sprintf("(%s.%s %s)", srt, fname, fs))
	}
	if len(parts) == 0 {
		parts = append(parts, fmt.Sprintf("(%s.__unit Int)", srt))
		si.fields = append(si.fields, "__unit")
		si.fsorts = append(si.fsorts, SInt)
		si.ftypes = append(si.ftypes, types.Typ[types.Int])
	}
	s.ctx.DeclareSortRaw(srt, fmt.Sprintf("(declare-datatypes ((%s 0)) (((%s %s))))", srt, si.ctor, strings.Join(parts, " ")))
	return srt
}

func (s *Sorts) StructInfo(srt string) *structInfo { return s.structs[srt] }

// Zero returns the zero value of a sort.
func (s *Sorts) Zero(srt string) Term {
	switch srt {
	case SInt:
		return Int(0)
	case SBool:
		return False
	case SStr:
		s.needStr()
		return Term{"str_empty", SStr}
	case SBytes:
		s.needBytes()
		return Term{"bytes_nil", SBytes}
	case SReal:
		return Term{"0.0", SReal}
	}
	if kv, ok := s.vms[srt]; ok {
		return s.MkVM(srt, s.ConstArray(kv[0], SBool, False), s.ConstArray(kv[0], kv[1], s.Zero(kv[1])))
	}
	if strings.HasPrefix(srt, "Sl_") {
		es := s.sliceElem(srt)
		arr := s.ConstArray(SInt, es, s.Zero(es))
		return Term{fmt.Sprintf("(mk_%s %s 0 true)", srt, arr.S), srt}
	}
	if si := s.structs[srt]; si != nil {
		var args []Term
		for _, fs := range si.fsorts {
			args = append(args, s.Zero(fs))
		}
		return app(srt, si.ctor, args...)
	}
	if strings.HasPrefix(srt, "(Array ") {
		return s.ConstArray(arrayIndex(srt), arrayElem(srt), s.Zero(arrayElem(srt)))
	}
	panic("zero: unknown sort " + srt)
}

func (s *Sorts) ConstArray(i, e string, v Term) Term {
	as := ArraySort(i, e)
	return Term{fmt.Sprintf("((as const %s) %s)", as, v.S), as}
}

func (s *Sorts) sliceElem(srt string) string {
	if e, ok := s.slices[srt]; ok {
		return e
	}
	panic("sliceElem: " + srt)
}

// slice accessors
func (s *Sorts) SlArr(t Term) Term { return Term{fmt.Sprintf("(%s.arr %s)", t.Sort, t.S), ArraySort(SInt, s.sliceElem(t.Sort))} }
func (s *Sorts) SlLen(t Term) Term { return Term{fmt.Sprintf("(%s.len %s)", t.Sort, t.S), SInt} }
func (s *Sorts) SlNil(t Term) Term { return Term{fmt.Sprintf("(%s.nil %s)", t.Sort, t.S), SBool} }
func (s *Sorts) MkSlice(srt string, arr, ln, isnil Term) Term {
	return Term{fmt.Sprintf("(mk_%s %s %s %s)", srt, arr.S, ln.S, isnil.S), srt}
}

// struct accessors
func (s *Sorts) Field(t Term, name string) Term {
	si := s.structs[t.Sort]
	if si == nil {
		panic("Field on non-struct sort " + t.Sort + " ." + name)
	}
	for i, f := range si.fields {
		if f == name {
			return Term{fmt.Sprintf("(%s.%s %s)", t.Sort, name, t.S), si.fsorts[i]}
		}
	}
	panic("no field " + name + " in " + t.Sort)
}

func (s *Sorts) WithField(t Term, name string, v Term) Term {
	si := s.structs[t.Sort]
	var args []Term
	found := false
	for _, f := range si.fields {
		if f == name {
			args = append(args, v)
			found = true
		} else {
			args = append(args, s.Field(t, f))
		}
	}
	if !found {
		panic("no field " + name + " in " + t.Sort)
	}
	return app(t.Sort, si.ctor, args...)
}
