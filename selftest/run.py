#!/usr/bin/env python3
"""Must-fail corpus runner: every patch is applied to a scratch copy of /repo (never to /repo itself); the
named functions are re-verified there and an obligation matching `expect` must fail ("none" = negative
control: nothing may fail). Usage: selftest/run.py [name-prefix ...]   Exit 0 iff every row behaves."""
import json, os, re, shutil, subprocess, sys, glob, tempfile
ROOT = '/verif/selftest'
env = dict(os.environ, GOFLAGS='-mod=mod', GOPROXY='off', GOSUMDB='off', GOTOOLCHAIN='local')
scratch = tempfile.mkdtemp(prefix='govc-selftest.')
try:
    subprocess.check_call(['rsync', '-a', '--exclude', '.git', '--exclude', 'test_data', '/repo/', scratch + '/'])
    env['GOVC_REPO'] = scratch
    rows = sorted(glob.glob(ROOT + '/*.json'))
    want = sys.argv[1:]
    bad = 0
    for r in rows:
        d = json.load(open(r))
        name = os.path.basename(r)[:-5]
        if want and not any(name.startswith(w) for w in want):
            continue
        patch = os.path.join(ROOT, d['patch'])
        p = subprocess.run(['patch', '-p1', '-s', '-d', scratch, '-i', patch], capture_output=True, text=True)
        if p.returncode != 0:
            print(f'{name}: PATCH-DOES-NOT-APPLY {p.stdout.strip()[:200]}'); bad += 1
            subprocess.run(['patch', '-R', '-p1', '-s', '-f', '-d', scratch, '-i', patch], capture_output=True)
            continue
        out = subprocess.run(['/verif/bin/govc', 'dev'] + d['funcs'].split(), capture_output=True, text=True, env=env).stdout
        subprocess.check_call(['patch', '-R', '-p1', '-s', '-d', scratch, '-i', patch])
        fails = [l.split()[-2] for l in out.splitlines() if l.strip().startswith('FAIL') and '/aux/' not in l]
        unsup = [l.strip() for l in out.splitlines() if 'UNSUPPORTED' in l or 'load error' in l]
        if d['expect'] == 'none':
            ok = not fails and not unsup
        else:
            ok = any(re.search(d['expect'], f) for f in fails) or (d['expect'] == 'hint-mismatch' and bool(unsup))
        print(f"{name}: {'ok' if ok else 'NOT-AS-EXPECTED'}  expect={d['expect']}  failed={fails[:3]} {unsup[:1]}")
        bad += 0 if ok else 1
    print('selftest:', 'all rows behave' if bad == 0 else f'{bad} row(s) misbehave')
    sys.exit(1 if bad else 0)
finally:
    shutil.rmtree(scratch, ignore_errors=True)
