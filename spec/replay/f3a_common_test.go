package common

import "testing"

// Replay of finding F3a: DecodeFromString slices hexString[2:] without a length check.
func TestVerifReplayF3a(t *testing.T) {
	for _, in := range []string{"", "0"} {
		func() {
			defer func() {
				if r := recover(); r != nil {
					t.Errorf("REPRODUCED F3a: DecodeFromString(%q) panicked: %v", in, r)
				}
			}()
			DecodeFromString(in)
		}()
	}
}
