#!/bin/sh
# usage: tools_hook_commit.sh "<message>" — commits the contract-file changes of /repo as one guarded "verif:" commit,
# records its hash in spec/manifest_src.json (hook_commits) and regenerates MANIFEST.json.
set -e
cd /repo
[ -z "$(git status --porcelain | grep -v 'contracts_verif.go$')" ] || { echo "/repo has changes outside the contract files"; exit 2; }
git add -A src && git commit -q -m "verif: $1"
h=$(git rev-parse --short HEAD)
cd /verif
python3 - "$h" <<'P'
import json,sys
p='/verif/spec/manifest_src.json'
s=json.load(open(p))
if sys.argv[1] not in s['hook_commits']: s['hook_commits'].insert(0, sys.argv[1])
json.dump(s, open(p,'w'), indent=1, ensure_ascii=False)
P
python3 tools_manifest.py
echo "hook commit $h"
