package vc

import (
	"go/token"
	"fmt"
	"go/ast"
	"go/types"
	"strings"
)

// Extern contracts: functions outside the repository whose behaviour is assumed. Every use is listed in
// the evidence under "assumptions" as "extern contract: <name>".

type externFn func(e *Exec, st *State, call *ast.CallExpr, recv Term, args []Term) []Term

var externs map[string]externFn

// externWrites: heap keys written by externs (none of the modelled ones writes program-visible heap).
var externWrites = map[string][]string{}

func freshErr(e *Exec, st *State, hint string) Term {
	r := e.allocRef(st, "err_"+hint)
	e.declDyn()
	e.Ctx.Assume(st.PC, Eq(app(SInt, "dyntype", r), Int(int64(e.dynID(types.Typ[types.UnsafePointer])))))
	return r
}

func freshStr(e *Exec, st *State, hint string) Term {
	e.S.needStr()
	s := e.Ctx.Fresh("s_"+hint, SStr)
	e.Ctx.Assume(st.PC, And(Ge(app(SInt, "str_len", s), Int(0)), Le(app(SInt, "str_len", s), IntS(maxLen))))
	return s
}

func init() {
	externs = map[string]externFn{
		"fmt.Errorf": func(e *Exec, st *State, call *ast.CallExpr, recv Term, args []Term) []Term {
			return []Term{freshErr(e, st, "errorf")}
		},
		"errors.New": func(e *Exec, st *State, call *ast.CallExpr, recv Term, args []Term) []Term {
			return []Term{freshErr(e, st, "new")}
		},
		"fmt.Sprintf": func(e *Exec, st *State, call *ast.CallExpr, recv Term, args []Term) []Term {
			return []Term{sprintfModel(e, st, call, args)}
		},
		"fmt.Sprint": func(e *Exec, st *State, call *ast.CallExpr, recv Term, args []Term) []Term {
			return []Term{freshStr(e, st, "sprint")}
		},
		"fmt.Printf":  func(e *Exec, st *State, call *ast.CallExpr, recv Term, args []Term) []Term { return e.freshResults(st, call, "printf") },
		"fmt.Println": func(e *Exec, st *State, call *ast.CallExpr, recv Term, args []Term) []Term { return e.freshResults(st, call, "println") },
		"strconv.Itoa": func(e *Exec, st *State, call *ast.CallExpr, recv Term, args []Term) []Term {
			e.S.needStr()
			return []Term{app(SStr, "str_of_int", args[0])}
		},
		"strings.ToUpper": func(e *Exec, st *State, call *ast.CallExpr, recv Term, args []Term) []Term {
			e.S.needStr()
			r := app(SStr, "str_upper", args[0])
			e.Ctx.Assume(st.PC, Eq(app(SInt, "str_len", r), app(SInt, "str_len", args[0])))
			// idempotent
			e.Ctx.Axiom("(forall ((s Str)) (! (= (str_upper (str_upper s)) (str_upper s)) :pattern ((str_upper s))))")
			return []Term{r}
		},
		"strings.Split": func(e *Exec, st *State, call *ast.CallExpr, recv Term, args []Term) []Term {
			// total and functional; at least one element
			srt := e.S.sliceSort(SStr)
			var v Term
			if lit := e.S.StrLit("|"); args[1].S == lit.S {
				e.Ctx.DeclareFun("u_keys_SplitBar", []string{SStr}, srt)
				v = app(srt, "u_keys_SplitBar", args[0])
			} else {
				e.Ctx.DeclareFun("str_split", []string{SStr, SStr}, srt)
				v = app(srt, "str_split", args[0], args[1])
			}
			e.Ctx.Assume(st.PC, And(Ge(e.S.SlLen(v), Int(1)), Le(e.S.SlLen(v), IntS(maxLen)), Not(e.S.SlNil(v))))
			return []Term{v}
		},
		"encoding/hex.DecodeString": func(e *Exec, st *State, call *ast.CallExpr, recv Term, args []Term) []Term {
			e.S.needBytes()
			e.Ctx.DeclareFun("u_common_HexDec", []string{SStr}, SBytes)
			e.Ctx.DeclareFun("u_common_HexOK", []string{SStr}, SBool)
			ok := app(SBool, "u_common_HexOK", args[0])
			err := e.Ctx.Fresh("hexerr", SInt)
			e.Ctx.Assume(st.PC, Eq(Eq(err, Int(0)), ok))
			b := e.Ctx.Fresh("hexbytes", SBytes)
			// DecodeString returns the bytes decoded before an error: its first result is a function of s
			e.Ctx.Assume(st.PC, Eq(b, app(SBytes, "u_common_HexDec", args[0])))
			e.Ctx.Assume(st.PC, Ge(app(SInt, "bytes_len", b), Int(0)))
			return []Term{b, err}
		},
		"time.Now":   func(e *Exec, st *State, call *ast.CallExpr, recv Term, args []Term) []Term { return e.freshResultsNoAlloc(call) },
		"time.Since": func(e *Exec, st *State, call *ast.CallExpr, recv Term, args []Term) []Term { return e.freshResultsNoAlloc(call) },
		"time.After": func(e *Exec, st *State, call *ast.CallExpr, recv Term, args []Term) []Term { return e.freshResults(st, call, "after") },
		"time.Sleep": func(e *Exec, st *State, call *ast.CallExpr, recv Term, args []Term) []Term { return nil },
		"time.(Time).Unix": func(e *Exec, st *State, call *ast.CallExpr, recv Term, args []Term) []Term {
			return e.freshResults(st, call, "unix")
		},
		"time.(Duration).Nanoseconds": func(e *Exec, st *State, call *ast.CallExpr, recv Term, args []Term) []Term {
			return e.freshResults(st, call, "ns")
		},
		"sync.(*Mutex).Lock":      func(e *Exec, st *State, call *ast.CallExpr, recv Term, args []Term) []Term { return nil },
		"sync.(*Mutex).Unlock":    func(e *Exec, st *State, call *ast.CallExpr, recv Term, args []Term) []Term { return nil },
		"sync.(*RWMutex).Lock":    func(e *Exec, st *State, call *ast.CallExpr, recv Term, args []Term) []Term { return nil },
		"sync.(*RWMutex).Unlock":  func(e *Exec, st *State, call *ast.CallExpr, recv Term, args []Term) []Term { return nil },
		"sync.(*RWMutex).RLock":   func(e *Exec, st *State, call *ast.CallExpr, recv Term, args []Term) []Term { return nil },
		"sync.(*RWMutex).RUnlock": func(e *Exec, st *State, call *ast.CallExpr, recv Term, args []Term) []Term { return nil },
		"sync.(*WaitGroup).Wait":  func(e *Exec, st *State, call *ast.CallExpr, recv Term, args []Term) []Term { return nil },
		"sync.(*WaitGroup).Add":   func(e *Exec, st *State, call *ast.CallExpr, recv Term, args []Term) []Term { return nil },
		"sync.(*WaitGroup).Done":  func(e *Exec, st *State, call *ast.CallExpr, recv Term, args []Term) []Term { return nil },
		"reflect.DeepEqual": func(e *Exec, st *State, call *ast.CallExpr, recv Term, args []Term) []Term {
			// only used on []byte in the functions under contract: equality of the opaque Bytes values
			ta, tb := e.typeOf(call.Args[0]), e.typeOf(call.Args[1])
			if isByteSlice(ta) && isByteSlice(tb) {
				a := e.eval(st, call.Args[0])
				b := e.eval(st, call.Args[1])
				return []Term{Eq(a, b)}
			}
			return []Term{e.Ctx.Fresh("deepeq", SBool)}
		},
		"math.Ceil": func(e *Exec, st *State, call *ast.CallExpr, recv Term, args []Term) []Term {
			// real-number model: least integer >= x
			x := args[0]
			e.ieeeCeilDiv(st, call, x)
			return []Term{Term{fmt.Sprintf("(ite (= (to_real (to_int %s)) %s) %s (to_real (+ (to_int %s) 1)))", x.S, x.S, x.S, x.S), SReal}}
		},
		"math.Floor": func(e *Exec, st *State, call *ast.CallExpr, recv Term, args []Term) []Term {
			x := args[0]
			return []Term{Term{fmt.Sprintf("(to_real (to_int %s))", x.S), SReal}}
		},
		"math.Mod": func(e *Exec, st *State, call *ast.CallExpr, recv Term, args []Term) []Term {
			// exact for integral arguments: fmod(a,b) = a - b*trunc(a/b); only integral arguments occur
			a, b := args[0], args[1]
			e.declArith()
			ai, aok := stripToReal(a)
			bi, bok := stripToReal(b)
			if aok && bok {
				e.Assumed["math.Mod on exactly representable integers equals the integer remainder"] = true
				return []Term{Term{"(to_real (tmod " + ai + " " + bi + "))", SReal}}
			}
			return []Term{e.Ctx.Fresh("fmod", SReal)}
		},
		"math/big.(*Int).SetString": func(e *Exec, st *State, call *ast.CallExpr, recv Term, args []Term) []Term {
			// returns (z, true) with the parsed value, or (nil, false)
			e.S.needStr()
			e.Ctx.DeclareFun("u_keys_Parse36", []string{SStr}, SInt)
			e.Ctx.DeclareFun("u_keys_Parse36OK", []string{SStr}, SBool)
			var ok Term
			if args[1].S == "36" {
				ok = app(SBool, "u_keys_Parse36OK", args[0])
			} else {
				ok = e.Ctx.Fresh("setstring_ok", SBool)
			}
			ok = e.Ctx.Define("ssok", ok)
			k := e.regKey("G:keys.bigval", ArraySort(SInt, SInt))
			if args[1].S == "36" {
				hv := e.heapGet(st, k)
				e.heapSet(st, k, Ite(ok, Store(hv, recv, app(SInt, "u_keys_Parse36", args[0])), hv))
			}
			return []Term{Ite(ok, recv, Int(0)), ok}
		},
		"math/big.(*Int).Cmp": func(e *Exec, st *State, call *ast.CallExpr, recv Term, args []Term) []Term {
			// panics on nil operands
			e.safe(st, "nil", call, And(Not(Eq(recv, Int(0))), Not(Eq(args[0], Int(0)))))
			k := e.regKey("G:keys.bigval", ArraySort(SInt, SInt))
			a, b := Select(e.heapGet(st, k), recv), Select(e.heapGet(st, k), args[0])
			return []Term{Ite(Lt(a, b), Int(-1), Ite(Eq(a, b), Int(0), Int(1)))}
		},
		"crypto/ecdsa.Verify": func(e *Exec, st *State, call *ast.CallExpr, recv Term, args []Term) []Term {
			// dereferences pub, pub.X, pub.Y, r, s
			pub, data, r, s := args[0], args[1], args[2], args[3]
			pt := e.typeOf(call.Args[0]).Underlying().(*types.Pointer).Elem()
			su := structOf(pt)
			var xk, yk string
			for i := 0; i < su.NumFields(); i++ {
				switch su.Field(i).Name() {
				case "X":
					xk = e.fieldKey(pt, su.Field(i))
				case "Y":
					yk = e.fieldKey(pt, su.Field(i))
				}
			}
			e.safe(st, "nil", call, Not(Eq(pub, Int(0))))
			x, y := Select(e.heapGet(st, xk), pub), Select(e.heapGet(st, yk), pub)
			e.safe(st, "nil", call, And(Not(Eq(x, Int(0))), Not(Eq(y, Int(0))), Not(Eq(r, Int(0))), Not(Eq(s, Int(0)))))
			k := e.regKey("G:keys.bigval", ArraySort(SInt, SInt))
			bv := e.heapGet(st, k)
			e.S.needBytes()
			e.Ctx.DeclareFun("u_keys_SigOK", []string{SInt, SInt, SBytes, SInt, SInt}, SBool)
			return []Term{app(SBool, "u_keys_SigOK", Select(bv, x), Select(bv, y), data, Select(bv, r), Select(bv, s))}
		},
		"crypto/elliptic.Unmarshal": func(e *Exec, st *State, call *ast.CallExpr, recv Term, args []Term) []Term {
			// (nil, nil) for malformed or off-curve data
			e.S.needBytes()
			e.Ctx.DeclareFun("u_keys_UnmOK", []string{SBytes}, SBool)
			e.Ctx.DeclareFun("u_keys_UnmX", []string{SBytes}, SInt)
			e.Ctx.DeclareFun("u_keys_UnmY", []string{SBytes}, SInt)
			ok := app(SBool, "u_keys_UnmOK", args[1])
			x := e.allocRef(st, "bigx")
			y := e.allocRef(st, "bigy")
			k := e.regKey("G:keys.bigval", ArraySort(SInt, SInt))
			hv := e.heapGet(st, k)
			e.heapSet(st, k, Store(Store(hv, x, app(SInt, "u_keys_UnmX", args[1])), y, app(SInt, "u_keys_UnmY", args[1])))
			return []Term{Ite(ok, x, Int(0)), Ite(ok, y, Int(0))}
		},
		"crypto/ecdsa.Sign": func(e *Exec, st *State, call *ast.CallExpr, recv Term, args []Term) []Term {
			// (r, s, err): on success r and s are fresh integers that are, by definition, a signature of the digest
			e.S.needBytes()
			e.Ctx.DeclareFun("u_keys_Signed", []string{SInt, SBytes, SInt, SInt}, SBool)
			priv, data := args[1], args[2]
			r := e.allocRef(st, "sigr")
			s := e.allocRef(st, "sigs")
			err := e.Ctx.Fresh("signerr", SInt)
			e.Ctx.Assume(st.PC, Ge(err, Int(0)))
			k := e.regKey("G:keys.bigval", ArraySort(SInt, SInt))
			bv := e.heapGet(st, k)
			e.Ctx.Assume(st.PC, Implies(Eq(err, Int(0)), app(SBool, "u_keys_Signed", priv, data, Select(bv, r), Select(bv, s))))
			return []Term{Ite(Eq(err, Int(0)), r, Int(0)), Ite(Eq(err, Int(0)), s, Int(0)), err}
		},
		"sort.Slice": func(e *Exec, st *State, call *ast.CallExpr, recv Term, args []Term) []Term {
			return sortModel(e, st, call, call.Args[0])
		},
		"encoding/json.Marshal": func(e *Exec, st *State, call *ast.CallExpr, recv Term, args []Term) []Term {
			// argument evaluated without interface boxing: the encoding is a function of the value
			v := e.eval(st, call.Args[0])
			b := e.jsonOf(v)
			err := e.Ctx.Fresh("jsonerr", SInt)
			e.Ctx.Assume(st.PC, Ge(err, Int(0)))
			e.Ctx.Assume(st.PC, Ge(app(SInt, "bytes_len", b), Int(0)))
			return []Term{b, err}
		},
		"encoding/json.Unmarshal": func(e *Exec, st *State, call *ast.CallExpr, recv Term, args []Term) []Term {
			// json.Unmarshal(data, &x): on success x is any value whose encoding is data (decode is a left
			// inverse of encode); on failure x is unspecified
			data := e.eval(st, call.Args[0])
			err := e.Ctx.Fresh("jsonerr", SInt)
			e.Ctx.Assume(st.PC, Ge(err, Int(0)))
			u, ok := call.Args[1].(*ast.UnaryExpr)
			if !ok || u.Op.String() != "&" {
				e.unsupported(call.Pos(), "json.Unmarshal target must be &x")
				return []Term{err}
			}
			loc := e.lvalOf(st, u.X)
			old := loc.get(st)
			nv := e.Ctx.Fresh("decoded", old.Sort)
			name := "json_" + mangle(old.Sort)
			e.S.needBytes()
			e.Ctx.DeclareFun(name, []string{old.Sort}, SBytes)
			e.Ctx.Assume(st.PC, Implies(Eq(err, Int(0)), Term{fmt.Sprintf("(forall ((w %s)) (! (=> (= %s (%s w)) (= %s w)) :pattern ((%s w))))", old.Sort, data.S, name, nv.S, name), SBool}))
			e.Assumed["encoding/json: Unmarshal(Marshal(v)) restores v for the struct types used (assumed contract on the dependency)"] = true
			loc.set(st, nv)
			return []Term{err}
		},
		"sort.Sort": func(e *Exec, st *State, call *ast.CallExpr, recv Term, args []Term) []Term {
			// sort.Sort(T(x)) where T is a slice type implementing sort.Interface: x becomes a rearrangement of
			// itself (bijection witness); the order is known when T.Less compares one integer field of the
			// pointed-to elements, otherwise it is not interpreted
			arg := call.Args[0]
			if c, ok := arg.(*ast.CallExpr); ok && len(c.Args) == 1 {
				if tv, ok := e.tvOf(c.Fun); ok && tv.IsType() {
					arg = c.Args[0]
				}
			}
			if rel := e.lessContractOrder(st, call, arg); rel {
				return nil
			}
			key := e.lessFieldKey(call.Args[0])
			if key == "" {
				// an uninterpreted comparator must not be mistaken for integer order
				return sortModelKey(e, st, call, arg, "?")
			}
			return sortModelKey(e, st, call, arg, key)
		},
		"sort.(IntSlice).Sort": func(e *Exec, st *State, call *ast.CallExpr, recv Term, args []Term) []Term {
			// x.Sort() sorts the slice held in x in place (the value receiver shares the backing array)
			if sel, ok := call.Fun.(*ast.SelectorExpr); ok {
				return sortModel(e, st, call, sel.X)
			}
			return nil
		},
		"sort.Ints": func(e *Exec, st *State, call *ast.CallExpr, recv Term, args []Term) []Term {
			return sortModel(e, st, call, call.Args[0])
		},
	}
}

func stripToReal(t Term) (string, bool) {
	if strings.HasPrefix(t.S, "(to_real ") {
		return t.S[9 : len(t.S)-1], true
	}
	if strings.HasSuffix(t.S, ".0") {
		return strings.TrimSuffix(t.S, ".0"), true
	}
	return "", false
}

// sprintfModel: fmt.Sprintf is a function of its format and arguments (needed for key canonicity:
// the same inputs give the same string).
func sprintfModel(e *Exec, st *State, call *ast.CallExpr, args []Term) Term {
	e.S.needStr()
	if len(call.Args) == 0 {
		return freshStr(e, st, "sprintf")
	}
	fmtArg := e.eval(st, call.Args[0])
	var vs []Term
	var sorts []string
	vs = append(vs, fmtArg)
	sorts = append(sorts, SStr)
	for _, a := range call.Args[1:] {
		v := e.eval(st, a)
		vs = append(vs, v)
		sorts = append(sorts, v.Sort)
	}
	name := "sprintf_" + mangle(strings.Join(sorts[1:], "_"))
	e.Ctx.DeclareFun(name, sorts, SStr)
	r := app(SStr, name, vs...)
	e.Ctx.Assume(st.PC, And(Ge(app(SInt, "str_len", r), Int(0)), Le(app(SInt, "str_len", r), IntS(maxLen))))
	return r
}

// sortModel: the slice held in location x becomes a sorted permutation of itself. The order is the one
// given by the less closure s[i] < s[j] (integers) — any other comparator makes the result unconstrained
// apart from being a permutation.
func sortModel(e *Exec, st *State, call *ast.CallExpr, x ast.Expr) []Term {
	return sortModelKey(e, st, call, x, "")
}

// sortModelKey: as sortModel; when key is the heap key of an integer field, the elements are pointers and the
// order established is ascending in that field.
func sortModelKey(e *Exec, st *State, call *ast.CallExpr, x ast.Expr, key string) []Term {
	loc := e.lvalOf(st, x)
	s := loc.get(st)
	if !strings.HasPrefix(s.Sort, "Sl_") {
		e.unsupported(call.Pos(), "sort of %s", s.Sort)
		return nil
	}
	es := e.S.sliceElem(s.Sort)
	na := e.Ctx.Fresh("sorted", ArraySort(SInt, es))
	ln := e.S.SlLen(s)
	// permutation witness
	pm := e.Ctx.Fresh("perm", ArraySort(SInt, SInt))
	pi := e.Ctx.Fresh("perminv", ArraySort(SInt, SInt))
	e.Ctx.Assume(st.PC, Term{fmt.Sprintf("(forall ((i Int)) (! (=> (and (<= 0 i) (< i %s)) (and (<= 0 (select %s i)) (< (select %s i) %s) (= (select %s (select %s i)) i) (= (select %s i) (select %s (select %s i))))) :pattern ((select %s i))))",
		ln.S, pm.S, pm.S, ln.S, pi.S, pm.S, na.S, e.S.SlArr(s).S, pm.S, na.S), SBool})
	e.Ctx.Assume(st.PC, Term{fmt.Sprintf("(forall ((i Int)) (! (=> (and (<= 0 i) (< i %s)) (and (<= 0 (select %s i)) (< (select %s i) %s) (= (select %s (select %s i)) i))) :pattern ((select %s i))))",
		ln.S, pi.S, pi.S, ln.S, pm.S, pi.S, pi.S), SBool})
	// every element of the input occurs in the output, at the position given by the inverse permutation
	e.Ctx.Assume(st.PC, Term{fmt.Sprintf("(forall ((j Int)) (! (=> (and (<= 0 j) (< j %s)) (= (select %s (select %s j)) (select %s j))) :pattern ((select %s j))))",
		ln.S, na.S, pi.S, e.S.SlArr(s).S, e.S.SlArr(s).S), SBool})
	if key == "?" {
		// order not interpreted
	} else if key != "" {
		fa := e.heapGet(st, key)
		e.Ctx.Assume(st.PC, Term{fmt.Sprintf("(forall ((i Int) (j Int)) (! (=> (and (<= 0 i) (<= i j) (< j %s)) (<= (select %s (select %s i)) (select %s (select %s j)))) :pattern ((select %s i) (select %s j))))", ln.S, fa.S, na.S, fa.S, na.S, na.S, na.S), SBool})
	} else if es == SInt && isIntLess(e, call) {
		e.Ctx.Assume(st.PC, Term{fmt.Sprintf("(forall ((i Int) (j Int)) (! (=> (and (<= 0 i) (<= i j) (< j %s)) (<= (select %s i) (select %s j))) :pattern ((select %s i) (select %s j))))", ln.S, na.S, na.S, na.S, na.S), SBool})
	}
	e.Ctx.Assume(st.PC, e.permPred(na, e.S.SlArr(s), ln))
	e.noteSliceWrite(st, call, x)
	loc.set(st, e.S.MkSlice(s.Sort, na, ln, e.S.SlNil(s)))
	return nil
}

// isIntLess reports whether the comparator of sort.Slice is func(i, j int) bool { return s[i] < s[j] }.
func isIntLess(e *Exec, call *ast.CallExpr) bool {
	if len(call.Args) < 2 {
		return true // sort.Ints
	}
	lit, ok := call.Args[1].(*ast.FuncLit)
	if !ok || len(lit.Body.List) != 1 {
		return false
	}
	r, ok := lit.Body.List[0].(*ast.ReturnStmt)
	if !ok || len(r.Results) != 1 {
		return false
	}
	b, ok := r.Results[0].(*ast.BinaryExpr)
	if !ok || b.Op.String() != "<" {
		return false
	}
	xi, ok1 := b.X.(*ast.IndexExpr)
	yj, ok2 := b.Y.(*ast.IndexExpr)
	if !ok1 || !ok2 {
		return false
	}
	return exprText(e.P.Fset, xi.X) == exprText(e.P.Fset, yj.X) && exprText(e.P.Fset, xi.X) == exprText(e.P.Fset, call.Args[0]) &&
		identName(xi.Index) == lit.Type.Params.List[0].Names[0].Name && len(lit.Type.Params.List[0].Names) == 2 && identName(yj.Index) == lit.Type.Params.List[0].Names[1].Name
}

func identName(x ast.Expr) string {
	if id, ok := x.(*ast.Ident); ok {
		return id.Name
	}
	return ""
}

// lessFieldKey: for sort.Sort(x) where the static type of x is a named slice of pointers whose Less method is
// `return a[i].F < a[j].F` for an integer field F, the heap key of F (the order sort.Sort then establishes).
func (e *Exec) lessFieldKey(arg ast.Expr) string {
	t := e.typeOf(arg)
	n, ok := t.(*types.Named)
	if !ok {
		return ""
	}
	var less *FuncInfo
	for i := 0; i < n.NumMethods(); i++ {
		if n.Method(i).Name() == "Less" {
			less = e.P.Funcs[n.Method(i)]
		}
	}
	if less == nil || less.Decl.Body == nil || len(less.Decl.Body.List) != 1 {
		return ""
	}
	r, ok := less.Decl.Body.List[0].(*ast.ReturnStmt)
	if !ok || len(r.Results) != 1 {
		return ""
	}
	b, ok := r.Results[0].(*ast.BinaryExpr)
	if !ok || b.Op.String() != "<" {
		return ""
	}
	sx, ok1 := b.X.(*ast.SelectorExpr)
	sy, ok2 := b.Y.(*ast.SelectorExpr)
	if !ok1 || !ok2 || sx.Sel.Name != sy.Sel.Name {
		return ""
	}
	ix, ok1 := sx.X.(*ast.IndexExpr)
	iy, ok2 := sy.X.(*ast.IndexExpr)
	if !ok1 || !ok2 {
		return ""
	}
	params := less.Decl.Type.Params.List
	var pn []string
	for _, p := range params {
		for _, nm := range p.Names {
			pn = append(pn, nm.Name)
		}
	}
	if len(pn) != 2 || identName(ix.Index) != pn[0] || identName(iy.Index) != pn[1] {
		return ""
	}
	sl, ok := n.Underlying().(*types.Slice)
	if !ok || !isPointer(sl.Elem()) {
		return ""
	}
	elem := sl.Elem().Underlying().(*types.Pointer).Elem()
	su := structOf(elem)
	if su == nil {
		return ""
	}
	for i := 0; i < su.NumFields(); i++ {
		if su.Field(i).Name() == sx.Sel.Name {
			if _, _, isInt := intRange(su.Field(i).Type()); isInt {
				return e.fieldKey(elem, su.Field(i))
			}
		}
	}
	return ""
}


// lessContractOrder: sort.Sort(T(x)) where T.Less has a contract with `ensures[rule] ret0 == E`: x becomes a
// rearrangement of itself without inversions, i.e. for i < j not E[a := x', i := j, j := i]. (sort.Sort gives this
// for every strict weak order; that E is one is listed as an assumption.)
func (e *Exec) lessContractOrder(st *State, call *ast.CallExpr, x ast.Expr) bool {
	n, ok := e.typeOf(call.Args[0]).(*types.Named)
	if !ok {
		return false
	}
	var less *types.Func
	for i := 0; i < n.NumMethods(); i++ {
		if n.Method(i).Name() == "Less" {
			less = n.Method(i)
		}
	}
	if less == nil {
		return false
	}
	c := e.P.ContractFor(less)
	if c == nil {
		return false
	}
	var rule *Clause
	for _, en := range c.Ensures {
		if en.Label == "rule" {
			rule = en
		}
	}
	if rule == nil {
		return false
	}
	be, ok := rule.Expr.(*ast.BinaryExpr)
	if !ok || be.Op != token.EQL || !isRet0(be.X) {
		return false
	}
	sc, err := e.P.scopeFor(c)
	if err != nil || e.P.CheckClause(c, rule, sc.pos, sc) != nil {
		return false
	}
	// Less's preconditions must hold for every pair of positions of the slice being sorted
	{
		loc0 := e.lvalOf(st, x)
		s0 := loc0.get(st)
		e.Ctx.fresh++
		i0 := Term{fmt.Sprintf("i!q%d", e.Ctx.fresh), SInt}
		j0 := Term{fmt.Sprintf("j!q%d", e.Ctx.fresh), SInt}
		f0 := e.pushFrame(e.P.ByKey[c.Pkg+":"+c.Key], sc.info)
		env0 := st.Clone()
		e.bindSignature(env0, f0, sc.decl, sc.ftype, s0, []Term{i0, j0})
		for _, r := range c.Requires {
			if e.P.CheckClause(c, r, sc.pos, sc) != nil {
				continue
			}
			t := e.evalSpec(env0, r)
			g := Term{fmt.Sprintf("(forall ((%s Int) (%s Int)) (=> (and (<= 0 %s) (< %s %s) (<= 0 %s) (< %s %s)) %s))", i0.S, j0.S, i0.S, i0.S, e.S.SlLen(s0).S, j0.S, j0.S, e.S.SlLen(s0).S, t.S), SBool}
			e.Ctx.NeedsQuant = true
			e.frames[0].callSeen[c.Key]++
			e.Ctx.AddObligation(e.Fn.FullName(), "pre", fmt.Sprintf("%s/pre/sort.Sort:%s#%d/%s", e.fnName(), c.Key, e.frames[0].callSeen[c.Key], r.Label), st.PC, g, e.pos(call.Pos()))
		}
		e.popFrame()
	}
	// the permutation part (no order)
	sortModelKey(e, st, call, x, "?")
	loc := e.lvalOf(st, x)
	ns := loc.get(st)
	e.Ctx.fresh++
	i := Term{fmt.Sprintf("i!q%d", e.Ctx.fresh), SInt}
	j := Term{fmt.Sprintf("j!q%d", e.Ctx.fresh), SInt}
	f := e.pushFrame(e.P.ByKey[c.Pkg+":"+c.Key], sc.info)
	env := st.Clone()
	// Less(j, i): the later element is not less than the earlier one
	e.bindSignature(env, f, sc.decl, sc.ftype, ns, []Term{j, i})
	e.spec++
	rel := e.eval(env, be.Y)
	e.spec--
	e.popFrame()
	if rel.Sort != SBool {
		return true
	}
	e.Ctx.NeedsQuant = true
	e.Ctx.Assume(st.PC, Term{fmt.Sprintf("(forall ((%s Int) (%s Int)) (! (=> (and (<= 0 %s) (< %s %s) (< %s %s)) (not %s)) :pattern ((select %s %s) (select %s %s))))",
		i.S, j.S, i.S, i.S, j.S, j.S, e.S.SlLen(ns).S, rel.S, e.S.SlArr(ns).S, i.S, e.S.SlArr(ns).S, j.S), SBool})
	e.Assumed["sort.Sort leaves no inversion of the order stated by "+c.Key+"'s ensures[rule] (assumed to be a strict weak order)"] = true
	return true
}


// isRet0: the clause's left side is the first result (`ret0` before, `__ret[T](0)` after the clause was type-checked).
func isRet0(x ast.Expr) bool {
	if identName(x) == "ret0" {
		return true
	}
	c, ok := x.(*ast.CallExpr)
	if !ok || len(c.Args) != 1 {
		return false
	}
	ix, ok := c.Fun.(*ast.IndexExpr)
	if !ok || identName(ix.X) != "__ret" {
		return false
	}
	lit, ok := c.Args[0].(*ast.BasicLit)
	return ok && lit.Value == "0"
}


// ieeeCeilDiv: float64 values are modelled by exact reals. For math.Ceil(float64(A) / K) with an integer A and a
// positive integer constant K (the only floating-point computation on a verified path: TrustCount), the model is
// justified by two obligations when the contract says `float`: (1) 0 <= A < 2^31 on this path, and (2) for every
// such A the IEEE-754 binary64 computation - int64 to double, division (round-to-nearest-even), round toward
// +infinity, conversion back - yields exactly ceil(A/K). (2) is a closed QF_BVFP query, decided by cvc5 in about
// a minute: thorough tier only.
func (e *Exec) ieeeCeilDiv(st *State, call *ast.CallExpr, x Term) {
	if e.Fn == nil || e.Fn.C == nil || !e.Fn.C.FloatBV || len(e.frames) != 1 || e.spec > 0 {
		return
	}
	parts := splitSexp(x.S)
	if len(parts) != 3 || parts[0] != "/" {
		e.unsupported(call.Pos(), "float: math.Ceil argument is not float64(int)/constant")
		return
	}
	num := splitSexp(parts[1])
	if len(num) != 2 || num[0] != "to_real" {
		e.unsupported(call.Pos(), "float: numerator of math.Ceil argument is not float64(int)")
		return
	}
	k := strings.TrimSuffix(parts[2], ".0")
	var kv int64
	if _, err := fmt.Sscanf(k, "%d", &kv); err != nil || kv <= 0 || kv > 1<<20 || fmt.Sprint(kv) != k {
		e.unsupported(call.Pos(), "float: divisor of math.Ceil argument is not a small positive integer constant")
		return
	}
	a := Term{num[1], SInt}
	e.floatN++
	e.Ctx.AddObligation(e.Fn.FullName(), "float", fmt.Sprintf("%s/float/range#%d", e.fnName(), e.floatN), st.PC,
		And(Ge(a, Int(0)), Lt(a, Int(1<<31))), e.pos(call.Pos()))
	raw := fmt.Sprintf(`; IEEE-754 binary64 faithfulness of int(math.Ceil(float64(n)/%d)) for 0 <= n < 2^31
(set-logic QF_BVFP)
(declare-const n (_ BitVec 64))
(assert (bvsge n #x0000000000000000))
(assert (bvslt n #x0000000080000000))
(define-fun x () (_ FloatingPoint 11 53) ((_ to_fp 11 53) RNE n))
(define-fun k () (_ FloatingPoint 11 53) ((_ to_fp 11 53) RNE (_ bv%d 64)))
(define-fun q () (_ FloatingPoint 11 53) (fp.div RNE x k))
(define-fun c () (_ FloatingPoint 11 53) (fp.roundToIntegral RTP q))
(define-fun r () (_ BitVec 64) ((_ fp.to_sbv 64) RTZ c))
(assert (not (= r (bvudiv (bvadd n (_ bv%d 64)) (_ bv%d 64)))))
(check-sat)
`, kv, kv, kv-1, kv)
	o := e.Ctx.AddObligation(e.Fn.FullName(), "float", fmt.Sprintf("%s/float/ieee-ceil-div-%d#%d", e.fnName(), kv, e.floatN), True, True, e.pos(call.Pos()))
	o.Raw = raw
	o.ThoroughOnly = true
}
