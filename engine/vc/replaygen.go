package vc

import (
	"bytes"
	"context"
	"encoding/json"
	"fmt"
	"go/types"
	"os"
	"os/exec"
	"path/filepath"
	"strconv"
	"strings"
	"time"
)

// Generic counterexample replay.
//
// When an obligation of kind safe / post / assert / inv-* fails with a model, the inputs of the verified function
// (receiver and parameters at entry, and what they point to) are read back from the solver with (get-value ...),
// turned into Go values, and the REAL function is called on them in an in-package test injected with -overlay
// (nothing is written to the repository). The replay counts as reproduced only if the real code does what the
// model says: for a safety obligation it panics at the source line of the obligation; for the others it returns the
// result values the model predicts (for which the solver found the clause false).
//
// Only inputs built from integers, booleans, (opaque) strings, slices and structs of these, pointers to such
// structs and nil interfaces are decoded; anything else (maps, channels, functions, non-nil interfaces) means no
// replay - the check then reports the violation with no-failing-input-found.

type rparam struct {
	name string
	typ  types.Type
	term Term
}

// ReplayPlan is attached to the obligations of a verified function.
type ReplayPlan struct {
	pkgPath  string
	pkgName  string
	pkgDir   string // directory of the package (absolute)
	fn       string // function or method name
	recv     *rparam
	params   []rparam
	results  []rparam // predicted results (post-state terms); nil for obligations raised before the exit
	variadic bool
	sorts    *Sorts
	consts   func(string) bool
	qual     types.Qualifier
	results0 []types.Type      // result types of the signature
	imports  map[string]string // import path -> package name, filled by the qualifier
}

const replayMaxLen = 8

type rq struct {
	exprs []string
	seen  map[string]bool
}

func (q *rq) ask(x string) {
	if !q.seen[x] {
		q.seen[x] = true
		q.exprs = append(q.exprs, x)
	}
}

type rbuilder func(vals map[string]string) (string, error)

var errNoReplay = fmt.Errorf("input not decodable")

func smtInt(v string) (int64, bool) {
	v = strings.TrimSpace(v)
	neg := false
	if strings.HasPrefix(v, "(-") {
		neg = true
		v = strings.TrimSpace(strings.TrimSuffix(strings.TrimPrefix(v, "(-"), ")"))
	}
	n, err := strconv.ParseInt(v, 10, 64)
	if err != nil {
		u, err2 := strconv.ParseUint(v, 10, 64)
		if err2 != nil {
			return 0, false
		}
		n = int64(u)
	}
	if neg {
		n = -n
	}
	return n, true
}

// decode returns a builder of a Go expression for the value of term t (of Go type typ) in the entry state.
func (pl *ReplayPlan) decode(q *rq, t string, typ types.Type, depth int, pre *[]string, ptrs map[string]string) rbuilder {
	if depth > 3 {
		return func(map[string]string) (string, error) { return "", errNoReplay }
	}
	ts := types.TypeString(typ, pl.qual)
	switch u := typ.Underlying().(type) {
	case *types.Basic:
		switch {
		case u.Info()&types.IsInteger != 0:
			q.ask(t)
			return func(v map[string]string) (string, error) {
				n, ok := smtInt(v[t])
				if !ok {
					return "", errNoReplay
				}
				if u.Info()&types.IsUnsigned != 0 && n < 0 {
					return "", errNoReplay
				}
				return fmt.Sprintf("%s(%d)", ts, n), nil
			}
		case u.Kind() == types.Bool:
			q.ask(t)
			return func(v map[string]string) (string, error) {
				if v[t] != "true" && v[t] != "false" {
					return "", errNoReplay
				}
				return fmt.Sprintf("%s(%s)", ts, v[t]), nil
			}
		case u.Kind() == types.String:
			q.ask(t)
			return func(v map[string]string) (string, error) {
				return fmt.Sprintf("%s(%q)", ts, v[t]), nil
			}
		}
	case *types.Slice:
		srt := pl.sorts.SortOf(typ)
		var lenX, nilX string
		var at func(i int) string
		if srt == SBytes {
			lenX, nilX = "(bytes_len "+t+")", "(= "+t+" bytes_nil)"
			at = func(i int) string { return fmt.Sprintf("(bytes_at %s %d)", t, i) }
		} else if strings.HasPrefix(srt, "Sl_") {
			lenX, nilX = "("+srt+".len "+t+")", "("+srt+".nil "+t+")"
			at = func(i int) string { return fmt.Sprintf("(select (%s.arr %s) %d)", srt, t, i) }
		} else {
			break
		}
		q.ask(lenX)
		q.ask(nilX)
		var elems []rbuilder
		for i := 0; i < replayMaxLen; i++ {
			if srt == SBytes {
				x := at(i)
				q.ask(x)
				elems = append(elems, func(v map[string]string) (string, error) {
					n, ok := smtInt(v[x])
					if !ok || n < 0 || n > 255 {
						return "0", nil // the model leaves bytes it does not care about unconstrained
					}
					return fmt.Sprint(n), nil
				})
			} else if _, isIface := u.Elem().Underlying().(*types.Interface); isIface {
				x := at(i)
				q.ask(x)
				elems = append(elems, func(v map[string]string) (string, error) {
					n, ok := smtInt(v[x])
					if !ok {
						return "", errNoReplay
					}
					if n == 0 {
						return "nil", nil
					}
					return fmt.Sprintf("zzReplayItem(%d)", n), nil
				})
			} else {
				elems = append(elems, pl.decode(q, at(i), u.Elem(), depth+1, pre, ptrs))
			}
		}
		return func(v map[string]string) (string, error) {
			if v[nilX] == "true" {
				return fmt.Sprintf("%s(nil)", ts), nil
			}
			n, ok := smtInt(v[lenX])
			if !ok || n < 0 || n > replayMaxLen {
				return "", errNoReplay
			}
			var parts []string
			for i := 0; i < int(n); i++ {
				s, err := elems[i](v)
				if err != nil {
					return "", err
				}
				parts = append(parts, s)
			}
			return fmt.Sprintf("%s{%s}", ts, strings.Join(parts, ", ")), nil
		}
	case *types.Pointer:
		su, ok := u.Elem().Underlying().(*types.Struct)
		if !ok {
			break
		}
		q.ask(t)
		type fb struct {
			name string
			b    rbuilder
		}
		var fields []fb
		for i := 0; i < su.NumFields(); i++ {
			f := su.Field(i)
			h := "H0_" + mangle(fieldKeyName(u.Elem(), f))
			if !pl.consts(h) {
				continue // the verified code never reads this field
			}
			fields = append(fields, fb{f.Name(), pl.decode(q, "(select "+h+" "+t+")", f.Type(), depth+1, pre, ptrs)})
		}
		ets := types.TypeString(u.Elem(), pl.qual)
		return func(v map[string]string) (string, error) {
			n, ok := smtInt(v[t])
			if !ok {
				return "", errNoReplay
			}
			if n == 0 {
				return fmt.Sprintf("(%s)(nil)", ts), nil
			}
			key := ets + "#" + fmt.Sprint(n)
			if name, ok := ptrs[key]; ok {
				return name, nil // the same object reached twice
			}
			name := fmt.Sprintf("zzp%d", len(ptrs)+1)
			ptrs[key] = name
			var parts []string
			for _, f := range fields {
				s, err := f.b(v)
				if err != nil {
					return "", err
				}
				parts = append(parts, f.name+": "+s)
			}
			*pre = append(*pre, fmt.Sprintf("%s := &%s{%s}", name, ets, strings.Join(parts, ", ")))
			return name, nil
		}
	case *types.Struct:
		srt := pl.sorts.SortOf(typ)
		if !strings.HasPrefix(srt, "S_") {
			break
		}
		type fb struct {
			name string
			b    rbuilder
		}
		var fields []fb
		for i := 0; i < u.NumFields(); i++ {
			f := u.Field(i)
			if f.Name() == "_" {
				continue
			}
			fields = append(fields, fb{f.Name(), pl.decode(q, "("+srt+"."+f.Name()+" "+t+")", f.Type(), depth+1, pre, ptrs)})
		}
		return func(v map[string]string) (string, error) {
			var parts []string
			for _, f := range fields {
				s, err := f.b(v)
				if err != nil {
					return "", err
				}
				parts = append(parts, f.name+": "+s)
			}
			return fmt.Sprintf("%s{%s}", ts, strings.Join(parts, ", ")), nil
		}
	case *types.Map:
		// only the size of a map is read back: the keys are made up and the values are zero, which is faithful for
		// code that uses nothing but len(m); anything else shows up as a replay that does not reproduce
		names := mapKeyNames(u)
		h := "H0_" + mangle(names[2])
		q.ask(t)
		lenX := ""
		if pl.consts(h) {
			lenX = "(select " + h + " " + t + ")"
			q.ask(lenX)
		}
		kb, isBasic := u.Key().Underlying().(*types.Basic)
		kts := types.TypeString(u.Key(), pl.qual)
		return func(v map[string]string) (string, error) {
			r, ok := smtInt(v[t])
			if !ok {
				return "", errNoReplay
			}
			if r == 0 {
				return fmt.Sprintf("%s(nil)", ts), nil
			}
			var n int64
			if lenX != "" {
				n, ok = smtInt(v[lenX])
				if !ok || n < 0 || n > 64 {
					return "", errNoReplay
				}
			}
			if n > 0 && !isBasic {
				return "", errNoReplay
			}
			var parts []string
			for i := int64(1); i <= n; i++ {
				switch {
				case kb.Info()&types.IsInteger != 0:
					parts = append(parts, fmt.Sprintf("%s(%d): {}", kts, i))
				case kb.Kind() == types.String:
					parts = append(parts, fmt.Sprintf("%s(\"zzk%d\"): {}", kts, i))
				default:
					return "", errNoReplay
				}
			}
			lit := fmt.Sprintf("%s{%s}", ts, strings.Join(parts, ", "))
			if _, isPtr := u.Elem().Underlying().(*types.Pointer); isPtr || isIfaceType(u.Elem()) {
				lit = strings.ReplaceAll(lit, ": {}", ": nil")
			} else if _, isB := u.Elem().Underlying().(*types.Basic); isB {
				lit = strings.ReplaceAll(lit, ": {}", ": *new("+types.TypeString(u.Elem(), pl.qual)+")")
			}
			return lit, nil
		}
	case *types.Interface:
		q.ask(t)
		return func(v map[string]string) (string, error) {
			if n, ok := smtInt(v[t]); ok && n == 0 {
				return fmt.Sprintf("%s(nil)", ts), nil
			}
			return "", errNoReplay
		}
	}
	return func(map[string]string) (string, error) { return "", errNoReplay }
}

// predicted returns Go boolean expressions comparing the actual results r0, r1, ... with the model's.
func (pl *ReplayPlan) predicted(q *rq) func(v map[string]string) ([]string, error) {
	type chk func(v map[string]string) (string, error)
	var cs []chk
	for i, r := range pl.results {
		i, r := i, r
		name := fmt.Sprintf("r%d", i)
		switch u := r.typ.Underlying().(type) {
		case *types.Basic:
			if u.Info()&types.IsInteger != 0 {
				q.ask(r.term.S)
				cs = append(cs, func(v map[string]string) (string, error) {
					n, ok := smtInt(v[r.term.S])
					if !ok {
						return "", errNoReplay
					}
					return fmt.Sprintf("int64(%s) == %d", name, n), nil
				})
			} else if u.Kind() == types.Bool {
				q.ask(r.term.S)
				cs = append(cs, func(v map[string]string) (string, error) {
					return fmt.Sprintf("%s == %s", name, v[r.term.S]), nil
				})
			}
		case *types.Interface, *types.Pointer:
			q.ask(r.term.S)
			cs = append(cs, func(v map[string]string) (string, error) {
				n, ok := smtInt(v[r.term.S])
				if !ok {
					return "", errNoReplay
				}
				return fmt.Sprintf("(%s == nil) == %v", name, n == 0), nil
			})
		case *types.Slice:
			srt := pl.sorts.SortOf(r.typ)
			lenX := "(" + srt + ".len " + r.term.S + ")"
			if srt == SBytes {
				lenX = "(bytes_len " + r.term.S + ")"
			} else if !strings.HasPrefix(srt, "Sl_") {
				continue
			}
			q.ask(lenX)
			cs = append(cs, func(v map[string]string) (string, error) {
				n, ok := smtInt(v[lenX])
				if !ok {
					return "", errNoReplay
				}
				return fmt.Sprintf("len(%s) == %d", name, n), nil
			})
		}
	}
	return func(v map[string]string) ([]string, error) {
		var out []string
		for _, c := range cs {
			s, err := c(v)
			if err != nil {
				return nil, err
			}
			out = append(out, s)
		}
		return out, nil
	}
}

// parseGetValue parses the answer of (get-value (e1 e2 ...)) into the values, in order.
func parseGetValue(out string) []string {
	i := strings.Index(out, "((")
	if i < 0 {
		return nil
	}
	s := out[i:]
	// tokenise into a tree
	type node struct {
		atom string
		kids []*node
	}
	var stack []*node
	root := &node{}
	cur := root
	tok := func(a string) {
		cur.kids = append(cur.kids, &node{atom: a})
	}
	for j := 0; j < len(s); j++ {
		switch c := s[j]; {
		case c == '(':
			n := &node{}
			cur.kids = append(cur.kids, n)
			stack = append(stack, cur)
			cur = n
		case c == ')':
			if len(stack) == 0 {
				j = len(s)
				break
			}
			cur = stack[len(stack)-1]
			stack = stack[:len(stack)-1]
			if len(stack) == 0 {
				j = len(s)
			}
		case c == ' ' || c == '\n' || c == '\t' || c == '\r':
		case c == '"':
			k := j + 1
			for k < len(s) && s[k] != '"' {
				k++
			}
			tok(s[j : k+1])
			j = k
		case c == '|':
			k := j + 1
			for k < len(s) && s[k] != '|' {
				k++
			}
			tok(s[j : k+1])
			j = k
		default:
			k := j
			for k < len(s) && !strings.ContainsRune("() \n\t\r", rune(s[k])) {
				k++
			}
			tok(s[j:k])
			j = k - 1
		}
	}
	if len(root.kids) == 0 {
		return nil
	}
	var render func(n *node) string
	render = func(n *node) string {
		if n.kids == nil && n.atom != "" {
			return n.atom
		}
		var ps []string
		for _, k := range n.kids {
			ps = append(ps, render(k))
		}
		return "(" + strings.Join(ps, " ") + ")"
	}
	var vals []string
	for _, pair := range root.kids[0].kids {
		if len(pair.kids) < 2 {
			return nil
		}
		v := render(pair.kids[len(pair.kids)-1])
		v = strings.Replace(v, "(- ", "(-", 1)
		vals = append(vals, v)
	}
	return vals
}

// TryReplay runs the counterexample of a failed obligation on the real code. ok = reproduced.
// LastGenericTest: source and package directory of the test generated by the last TryReplay of this obligation (so
// that `govc replay <file>` can run it again).
type GenericTest struct {
	PkgDir string `json:"pkg_dir"`
	Source string `json:"source"`
}

func (o *Obligation) TryReplay(repo string) (ok bool, report string) {
	pl := o.Replay
	if pl == nil || o.Raw != "" {
		return false, ""
	}
	switch o.Kind {
	case "safe", "post", "assert", "inv-init", "inv-pres", "pre":
	default:
		return false, ""
	}
	q := &rq{seen: map[string]bool{}}
	var pre []string
	ptrs := map[string]string{}
	var inputs []rbuilder
	if pl.recv != nil {
		inputs = append(inputs, pl.decode(q, pl.recv.term.S, pl.recv.typ, 0, &pre, ptrs))
	}
	for _, p := range pl.params {
		inputs = append(inputs, pl.decode(q, p.term.S, p.typ, 0, &pre, ptrs))
	}
	var pred func(v map[string]string) ([]string, error)
	if o.Kind == "post" && pl.results != nil {
		pred = pl.predicted(q)
	}
	if len(q.exprs) == 0 {
		return false, ""
	}
	// small-model constraints: every decoded slice has at most replayMaxLen elements
	smt := o.smtFor(o.Goal, true)
	smt = strings.TrimSuffix(strings.TrimSpace(smt), "(get-model)")
	smt = strings.TrimSuffix(strings.TrimSpace(smt), "(check-sat)")
	var b strings.Builder
	b.WriteString(smt)
	b.WriteString("\n")
	for _, x := range q.exprs {
		if strings.Contains(x, ".len ") || strings.HasPrefix(x, "(bytes_len ") || strings.HasPrefix(x, "(select H0_ML_") {
			fmt.Fprintf(&b, "(assert (<= %s %d))\n", x, replayMaxLen)
		}
	}
	b.WriteString("(check-sat)\n(get-value (" + strings.Join(q.exprs, " ") + "))\n")
	tmp, err := os.MkdirTemp("", "govc-greplay-")
	if err != nil {
		return false, ""
	}
	defer os.RemoveAll(tmp)
	file := filepath.Join(tmp, "q.smt2")
	os.WriteFile(file, []byte(b.String()), 0o644)
	ctx, cancel := context.WithTimeout(context.Background(), 40*time.Second)
	defer cancel()
	var out bytes.Buffer
	cmd := exec.CommandContext(ctx, "z3-new", "-T:30", file)
	cmd.Stdout, cmd.Stderr = &out, &out
	cmd.Run()
	first := strings.TrimSpace(strings.SplitN(out.String(), "\n", 2)[0])
	if first != "sat" {
		return false, "generic replay: no small model (" + trunc(first, 60) + ")"
	}
	vals := parseGetValue(out.String())
	if len(vals) != len(q.exprs) {
		return false, "generic replay: could not read the model back"
	}
	vm := map[string]string{}
	for i, x := range q.exprs {
		vm[x] = vals[i]
	}
	var args []string
	for _, in := range inputs {
		s, err := in(vm)
		if err != nil {
			return false, "generic replay: an input of " + pl.fn + " is outside the decodable types (maps, functions, channels, non-nil interfaces)"
		}
		args = append(args, s)
	}
	var checks []string
	if pred != nil {
		checks, err = pred(vm)
		if err != nil || len(checks) == 0 {
			return false, "generic replay: the predicted results are not decodable"
		}
	}
	// the test
	var t strings.Builder
	fmt.Fprintf(&t, "package %s\n\nimport (\n\t\"fmt\"\n\t\"runtime/debug\"\n\t\"strings\"\n\t\"testing\"\n", pl.pkgName)
	for path, name := range pl.imports {
		fmt.Fprintf(&t, "\t%s %q\n", name, path)
	}
	t.WriteString(")\n\ntype zzReplayItem int\n\nvar _ = strings.Contains\n\n")
	t.WriteString("func TestVerifGenericReplay(t *testing.T) {\n")
	for _, l := range pre {
		t.WriteString("\t" + l + "\n")
	}
	call := ""
	rest := args
	if pl.recv != nil {
		t.WriteString("\tzzrecv := " + args[0] + "\n")
		call = "zzrecv." + pl.fn
		rest = args[1:]
	} else {
		call = pl.fn
	}
	for i, a := range rest {
		fmt.Fprintf(&t, "\tzza%d := %s\n", i, a)
	}
	var an []string
	for i := range rest {
		s := fmt.Sprintf("zza%d", i)
		if pl.variadic && i == len(rest)-1 {
			s += "..."
		}
		an = append(an, s)
	}
	var rn []string
	for i := range pl.resultTypes() {
		rn = append(rn, fmt.Sprintf("r%d", i))
	}
	for i, rt := range pl.resultTypes() {
		fmt.Fprintf(&t, "\tvar r%d %s\n\t_ = r%d\n", i, types.TypeString(rt, pl.qual), i)
	}
	t.WriteString("\tpanicked := \"\"\n\tfunc() {\n\t\tdefer func() {\n\t\t\tif p := recover(); p != nil {\n\t\t\t\tpanicked = fmt.Sprint(p) + \"\\n\" + string(debug.Stack())\n\t\t\t}\n\t\t}()\n")
	if len(rn) > 0 {
		fmt.Fprintf(&t, "\t\t%s = %s(%s)\n", strings.Join(rn, ", "), call, strings.Join(an, ", "))
	} else {
		fmt.Fprintf(&t, "\t\t%s(%s)\n", call, strings.Join(an, ", "))
	}
	t.WriteString("\t}()\n")
	line := o.Pos
	if i := strings.LastIndex(line, "/"); i >= 0 {
		line = line[i+1:]
	}
	if o.Kind == "safe" {
		fmt.Fprintf(&t, "\tif panicked != \"\" && strings.Contains(panicked, %q) {\n\t\tfmt.Println(\"REPRODUCED: the real code panics at %s:\", strings.SplitN(panicked, \"\\n\", 2)[0])\n\t} else if panicked != \"\" {\n\t\tfmt.Println(\"NOT-REPRODUCED: panic elsewhere:\", panicked)\n\t} else {\n\t\tfmt.Println(\"NOT-REPRODUCED: no panic\")\n\t}\n", line+" ", line)
	} else if len(checks) > 0 {
		fmt.Fprintf(&t, "\tif panicked == \"\" && %s {\n\t\tfmt.Println(\"REPRODUCED: the real code returns what the counterexample predicts (%s), for which the clause is false\")\n\t} else {\n\t\tfmt.Println(\"NOT-REPRODUCED\", panicked)\n\t}\n", strings.Join(checks, " && "), strings.ReplaceAll(strings.Join(checks, ", "), "\"", "'"))
	} else {
		return false, "generic replay: nothing observable to compare for a " + o.Kind + " obligation"
	}
	t.WriteString("}\n")
	src := filepath.Join(tmp, "zz_verif_generic_replay_test.go")
	os.WriteFile(src, []byte(t.String()), 0o644)
	target := filepath.Join(pl.pkgDir, "zz_verif_generic_replay_test.go")
	ov := map[string]map[string]string{"Replace": {target: src}}
	ob, _ := json.Marshal(ov)
	ovf := filepath.Join(tmp, "ov.json")
	os.WriteFile(ovf, ob, 0o644)
	ctx2, cancel2 := context.WithTimeout(context.Background(), 150*time.Second)
	defer cancel2()
	gt := exec.CommandContext(ctx2, "go", "test", "-overlay", ovf, "-vet=off", "-count=1", "-v", "-timeout", "60s", "-run", "^TestVerifGenericReplay$", ".")
	gt.Dir = pl.pkgDir
	gt.Env = append(os.Environ(), "GOFLAGS=-mod=mod", "GOPROXY=off", "GOSUMDB=off", "GOTOOLCHAIN=local")
	var gout bytes.Buffer
	gt.Stdout, gt.Stderr = &gout, &gout
	gt.Run()
	var keep []string
	for _, l := range strings.Split(gout.String(), "\n") {
		if !strings.Contains(l, "level=") {
			keep = append(keep, l)
		}
	}
	text := strings.Join(keep, "\n")
	if len(text) > 4000 {
		text = text[:4000]
	}
	o.GenericTest = &GenericTest{PkgDir: pl.pkgDir, Source: t.String()}
	report = "--- generic replay: the model's inputs run on the real code (in-package test via -overlay) ---\n" + t.String() + "\n--- output ---\n" + text
	for _, l := range strings.Split(text, "\n") {
		if strings.HasPrefix(l, "REPRODUCED: ") {
			return true, report
		}
	}
	return false, report
}

func (pl *ReplayPlan) resultTypes() []types.Type {
	var out []types.Type
	for _, r := range pl.results0 {
		out = append(out, r)
	}
	return out
}

func isIfaceType(t types.Type) bool {
	_, ok := t.Underlying().(*types.Interface)
	return ok
}
