#!/usr/bin/env python3
"""Contract-strength probe (development aid, not a registered check): mechanical one-token mutants of the functions
under contract, each re-verified against that function's own contract on a scratch copy of /repo. A mutant that still
verifies ("survivor") points at a clause that is missing, or at an equivalent mutant; survivors are reviewed by hand.
Nothing here decides a property.  Usage: tools_mutate.py [-j N] [-n MAX_PER_FUNC] [-s SEED] [name-regex]
Output: one line per mutant (KILLED / SURVIVED / NOLOAD) and a summary; survivors with the mutated line."""
import os, re, sys, random, subprocess, tempfile, threading, queue, shutil

ENV = dict(os.environ, GOFLAGS='-mod=mod', GOPROXY='off', GOSUMDB='off', GOTOOLCHAIN='local')
args = sys.argv[1:]
jobs, per, seed, pat = 8, 6, 1, '.*'
while args:
    a = args.pop(0)
    if a == '-j': jobs = int(args.pop(0))
    elif a == '-n': per = int(args.pop(0))
    elif a == '-s': seed = int(args.pop(0))
    else: pat = a
random.seed(seed)

OPS = [
    (r'<=', '<'), (r'>=', '>'), (r'(?<![<>=!:+\-*/|&])<(?![=<-])', '<='), (r'(?<![<>=!:+\-*/|&-])>(?![=>])', '>='),
    (r'==', '!='), (r'!=', '=='), (r'&&', '||'), (r'\|\|', '&&'),
    (r'\+ ?1\b', '+ 2'), (r'- ?1\b', '- 2'), (r'\+ ?1\b', ''), (r'- ?1\b', ''),
    (r'\bcontinue\b', 'break'), (r'\bbreak\b', 'continue'), (r'\btrue\b', 'false'), (r'\bfalse\b', 'true'),
    (r'\breturn nil\b', 'return fmt.Errorf("x")'), (r'\breturn err\b', 'return nil'),
    (r'!(?=[a-zA-Z(])', ''), (r'\b0\b', '1'), (r'\[0\]', '[1]'), (r'\[1\]', '[0]'),
]


def listing():
    out = subprocess.run(['/verif/bin/govc', 'list'], capture_output=True, text=True, env=ENV).stdout
    res = []
    for l in out.splitlines():
        if l.startswith('LIST '):
            _, name, f, a, b = l.split()
            if re.search(pat, name) and os.path.exists(f):
                res.append((name, f, int(a), int(b)))
    return sorted(res)


def mutants(name, f, a, b):
    lines = open(f).read().split('\n')
    ms = []
    for ln in range(a, b - 1):  # 0-based index ln = line ln+1: body lines strictly inside the braces
        text = lines[ln]
        code = text.split('//')[0]
        if not code.strip() or 'logger' in code or 'Debug' in code or 'fmt.Errorf' in code or 'NewStoreErr' in code:
            continue
        for rx, rep in OPS:
            for m in re.finditer(rx, code):
                if code[:m.start()].count('"') % 2 == 1:
                    continue  # inside a string literal
                new = code[:m.start()] + rep + code[m.end():] + text[len(code):]
                ms.append((ln, text, new))
    random.shuffle(ms)
    return ms[:per]


work = queue.Queue()
funcs = listing()
total = 0
for (name, f, a, b) in funcs:
    for (ln, old, new) in mutants(name, f, a, b):
        work.put((name, f, ln, old, new)); total += 1
print(f'{len(funcs)} functions, {total} mutants', flush=True)
base = tempfile.mkdtemp(prefix='govc-mutate.')
lock = threading.Lock()
stats = {'KILLED': 0, 'SURVIVED': 0, 'NOLOAD': 0}
survivors = []


def worker(w):
    scratch = os.path.join(base, f'w{w}')
    os.makedirs(scratch)
    subprocess.check_call(['rsync', '-a', '--exclude', '.git', '--exclude', 'test_data', '/repo/', scratch + '/'])
    env = dict(ENV, GOVC_REPO=scratch, GOVC_DEVDIR=os.path.join(base, f'smt{w}'))
    while True:
        try:
            name, f, ln, old, new = work.get_nowait()
        except queue.Empty:
            return
        sf = scratch + f[len('/repo'):]
        orig = open(sf).read()
        lines = orig.split('\n')
        assert lines[ln] == old
        lines[ln] = new
        open(sf, 'w').write('\n'.join(lines))
        try:
            out = subprocess.run(['/verif/bin/govc', 'dev', name], capture_output=True, text=True, env=env, timeout=600).stdout
        except subprocess.TimeoutExpired:
            out = 'FAIL timeout-of-run'
        open(sf, 'w').write(orig)
        if 'load error' in out or 'no such function' in out:
            v = 'NOLOAD'
        elif re.search(r'^\s+FAIL', out, re.M) or 'UNSUPPORTED' in out:
            v = 'KILLED'
        else:
            v = 'SURVIVED'
        with lock:
            stats[v] += 1
            print(f'{v} {name} {os.path.basename(f)}:{ln+1}: {old.strip()}  ==>  {new.strip()}', flush=True)
            if v == 'SURVIVED':
                survivors.append((name, f, ln + 1, old.strip(), new.strip()))


try:
    ts = [threading.Thread(target=worker, args=(i,)) for i in range(jobs)]
    for t in ts: t.start()
    for t in ts: t.join()
finally:
    shutil.rmtree(base, ignore_errors=True)
print('SUMMARY', stats)
