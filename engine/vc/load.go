package vc

import (
	"fmt"
	"go/ast"
	"go/token"
	"go/types"
	"os"
	"path/filepath"
	"sort"
	"strings"

	"golang.org/x/tools/go/packages"
)

const GhostFileName = "zz_govc_ghost_verif.go"

const ghostPrelude = `
func __old[T any](x T) T { return x }
func __forall(f any) bool { return true }
func __exists(f any) bool { return true }
func __implies(a, b bool) bool { return !a || b }
func __iff(a, b bool) bool { return a == b }
func __ret[T any](i int) T { var z T; return z }
func __vis(k any) bool { return true }
func __visn(loop int, k any) bool { return true }
func __count(set any, f any) int { return 0 }
func __countseq(s any, n int, f any) int { return 0 }
func __sumseq(s any, n int, f any) int { return 0 }
func __dom[K comparable, V any](m map[K]V) map[K]bool { return nil }
func __len(x any) int { return 0 }
func __seqeq(a, b any) bool { return true }
func __fresh(x any) bool { return true }
func __alloc0(x any) bool { return true }
func __allocated(x any) bool { return true }
func __isStoreErr(err error, t int) bool { return true }
func __dyn(x any, name string) bool { return true }
func __bytes(x []byte) []byte { return x }
func __ite[T any](c bool, a, b T) T { return a }
func __unchanged(x ...any) bool { return true }
func __domeq(a, b any) bool { return true }
func __mapeq(a, b any) bool { return true }
func __perm(a, b any) bool { return true }
func __sorted(a any) bool { return true }
func __nodup(a any) bool { return true }
func __in(x any, s any) bool { return true }
func __div(a, b int) int { return 0 }
func __mod(a, b int) int { return 0 }
func __enum(s any, m any, f any) bool { return true }
func __enumlemma(s any, m any, p any, q any, pq any) bool { return true }

// gmap: a mathematical (ghost) finite map; values of this type are not heap objects.
type gmap[K comparable, V any] map[K]V
func __upd[K comparable, V any](m gmap[K, V], k K, v V) gmap[K, V] { return m }
func __del[K comparable, V any](m gmap[K, V], k K) gmap[K, V] { return m }
func __emptymap[K comparable, V any]() gmap[K, V] { return nil }
func __idx() int { return 0 }
func __iter() int { return 0 }
func __visset() any { return nil }
func __json(x any) []byte { return nil }
func __ranged[T any](zero T) T { return zero }
func __eq[T any](a, b T) bool { return true }
func __called(name string) bool { return true }
func __lastret(name string, i int) any { return nil }
func __arg(i int) any { return nil }
func __owned(x any) bool { return true }
func __sameref(a, b any) bool { return true }
func __samebytes(a, b []byte) bool { return true }
func __argT[T any](i int) T { var z T; return z }
func __lastretT[T any](name string, i int) T { var z T; return z }
func __cap[T any](label string) T { var z T; return z }
func __recv() any { return nil }
`

// FuncInfo is one function declaration of a loaded package.
type FuncInfo struct {
	Key  string // "Type.Method" or "Func"
	Pkg  *packages.Package
	Decl *ast.FuncDecl
	Obj  *types.Func
	C    *Contract // nil if none
}

func (f *FuncInfo) FullName() string { return shortPkg(f.Pkg.PkgPath) + "." + keyPretty(f) }

func keyPretty(f *FuncInfo) string {
	if i := strings.Index(f.Key, "."); i >= 0 {
		ptr := ""
		if f.Decl != nil && f.Decl.Recv != nil {
			if _, ok := f.Decl.Recv.List[0].Type.(*ast.StarExpr); ok {
				ptr = "*"
			}
		}
		return "(" + ptr + f.Key[:i] + ")" + f.Key[i:]
	}
	return f.Key
}

func shortPkg(p string) string {
	if i := strings.LastIndex(p, "/"); i >= 0 {
		return p[i+1:]
	}
	return p
}

// Program is the loaded repository.
type Program struct {
	Fset     *token.FileSet
	Pkgs     map[string]*packages.Package // by path
	Funcs    map[*types.Func]*FuncInfo
	ByKey    map[string]*FuncInfo // "pkgpath:Key"
	PC       map[string]*PkgContracts
	IfaceC   map[string]*Contract // "pkgpath:Iface.Method" contracts without body
	Errors   []string
	RepoRoot string
	modsets  map[*types.Func]map[string]bool
	cbsets   map[*types.Func]map[string]bool // callback fields ("Type.field") a function may invoke, transitively
	cbImpls  map[string][]*types.Func        // registered implementations per callback field
	cbNotes  []string
	cbFieldType map[string]*types.Named
	cbRegNotes  []string
	cbRegDone   bool
	baseModsets map[*types.Func]map[string]bool
	notes    map[string]bool
	checked  map[*Clause]bool
	checkErr map[*Clause]error
	CInfo    *types.Info
	desigCache map[string]*Clause
	contractKeyCache map[*Contract]map[string]bool
	// Memo: heap key -> ghost predicate method (a *FuncInfo in the ghost file) constraining the memo cell
	Memo map[string]*FuncInfo
	// Private: frame label of a heap key -> path of the package that owns it (`//@ private`)
	Private map[string]string
}

var DefaultPatterns = []string{"./src/common", "./src/peers", "./src/crypto/keys", "./src/crypto", "./src/hashgraph", "./src/node", "./src/node/state", "./src/net", "./src/proxy", "./src/proxy/inmem", "./src/proxy/socket/app", "./src/proxy/socket/babble"}

// Load loads /repo's packages with the verif tag and the ghost overlay built from the contract files.
func Load(repo string, patterns []string) (*Program, error) {
	defer func() {}()
	prog := &Program{Pkgs: map[string]*packages.Package{}, Funcs: map[*types.Func]*FuncInfo{}, ByKey: map[string]*FuncInfo{}, PC: map[string]*PkgContracts{}, IfaceC: map[string]*Contract{}, RepoRoot: repo}
	overlay := map[string][]byte{}
	// find contract files
	err := filepath.Walk(filepath.Join(repo, "src"), func(path string, info os.FileInfo, err error) error {
		if err != nil {
			return nil
		}
		if info.IsDir() || info.Name() != "contracts_verif.go" {
			return nil
		}
		src, err := os.ReadFile(path)
		if err != nil {
			return err
		}
		dir := filepath.Dir(path)
		rel, _ := filepath.Rel(repo, dir)
		pkgPath := "github.com/mosaicnetworks/babble/" + filepath.ToSlash(rel)
		pc, err := ParseContracts(path, pkgPath, src)
		if err != nil {
			return err
		}
		if err := pc.expandImplements(); err != nil {
			return err
		}
		prog.PC[pkgPath] = pc
		var b strings.Builder
		b.WriteString("//go:build verif\n\npackage " + pc.PkgName + "\n\n")
		for _, im := range pc.Imports {
			b.WriteString("import " + im + "\n")
		}
		b.WriteString(ghostPrelude)
		for _, g := range pc.Ghost {
			b.WriteString(g.Src + "\n")
		}
		overlay[filepath.Join(dir, GhostFileName)] = []byte(b.String())
		return nil
	})
	if err != nil {
		return nil, err
	}
	cfg := &packages.Config{
		Mode:       packages.NeedName | packages.NeedFiles | packages.NeedSyntax | packages.NeedTypes | packages.NeedTypesInfo | packages.NeedImports | packages.NeedDeps,
		Dir:        repo,
		BuildFlags: []string{"-tags=verif"},
		Overlay:    overlay,
		Env:        append(os.Environ(), "GOFLAGS=-mod=mod", "GOPROXY=off", "GOSUMDB=off", "GOTOOLCHAIN=local"),
	}
	pkgs, err := packages.Load(cfg, patterns...)
	if err != nil {
		return nil, err
	}
	for _, p := range pkgs {
		for _, e := range p.Errors {
			if strings.Contains(e.Error(), GhostFileName) && (strings.Contains(e.Error(), "imported and not used") || (strings.Contains(e.Error(), "imported as") && strings.Contains(e.Error(), "not used"))) {
				continue
			}
			prog.Errors = append(prog.Errors, e.Error())
		}
		prog.Pkgs[p.PkgPath] = p
		if prog.Fset == nil {
			prog.Fset = p.Fset
		}
	}
	if len(prog.Errors) > 0 {
		return prog, fmt.Errorf("package load errors: %s", strings.Join(prog.Errors, "; "))
	}
	// index function declarations
	for _, p := range pkgs {
		for _, f := range p.Syntax {
			for _, d := range f.Decls {
				fd, ok := d.(*ast.FuncDecl)
				if !ok {
					continue
				}
				obj, _ := p.TypesInfo.Defs[fd.Name].(*types.Func)
				if obj == nil {
					continue
				}
				key := fd.Name.Name
				if fd.Recv != nil && len(fd.Recv.List) == 1 {
					t := fd.Recv.List[0].Type
					if st, ok := t.(*ast.StarExpr); ok {
						t = st.X
					}
					if id, ok := t.(*ast.Ident); ok {
						key = id.Name + "." + key
					}
				}
				fi := &FuncInfo{Key: key, Pkg: p, Decl: fd, Obj: obj}
				prog.Funcs[obj] = fi
				prog.ByKey[p.PkgPath+":"+key] = fi
			}
		}
	}
	// attach contracts
	for pkgPath, pc := range prog.PC {
		p := prog.Pkgs[pkgPath]
		if p == nil {
			return nil, fmt.Errorf("contracts for package %s which is not loaded", pkgPath)
		}
		keys := make([]string, 0, len(pc.Contracts))
		for k := range pc.Contracts {
			keys = append(keys, k)
		}
		sort.Strings(keys)
		for _, k := range keys {
			c := pc.Contracts[k]
			if fi := prog.ByKey[pkgPath+":"+k]; fi != nil {
				fi.C = c
				continue
			}
			if c.NoBody {
				prog.IfaceC[pkgPath+":"+k] = c
				// `iface func (x *alias.Type) M(...)`: an assumed contract of a method of an external package,
				// found at call sites under that package's path
				if parts := strings.Split(k, "."); len(parts) == 3 {
					for _, im := range pc.Imports {
						f := strings.Fields(im)
						path := strings.Trim(f[len(f)-1], "\"")
						alias := path[strings.LastIndex(path, "/")+1:]
						if len(f) == 2 {
							alias = f[0]
						}
						if alias == parts[0] {
							prog.IfaceC[path+":"+parts[1]+"."+parts[2]] = c
						}
					}
				}
				continue
			}
			// interface method contract?
			if i := strings.Index(k, "."); i >= 0 {
				if obj := p.Types.Scope().Lookup(k[:i]); obj != nil {
					if _, ok := obj.Type().Underlying().(*types.Interface); ok {
						c.NoBody = true
						prog.IfaceC[pkgPath+":"+k] = c
						continue
					}
				}
			}
			return nil, fmt.Errorf("%s:%d: contract %s matches no function in %s (hint-mismatch)", c.File, c.Line, k, pkgPath)
		}
	}
	NewProgramState(prog)
	prog.Private = map[string]string{}
	for pkgPath, pc := range prog.PC {
		for _, k := range pc.Private {
			prog.Private[k] = pkgPath
		}
	}
	if err := prog.checkPrivate(); err != nil {
		return nil, err
	}
	prog.Memo = map[string]*FuncInfo{}
	for pkgPath, pc := range prog.PC {
		p := prog.Pkgs[pkgPath]
		for _, m := range pc.Memos {
			obj := p.Types.Scope().Lookup(m.Type)
			if obj == nil || structOf(obj.Type()) == nil {
				return nil, fmt.Errorf("%s: memo: no struct type %s (hint-mismatch)", m.Line, m.Type)
			}
			su := structOf(obj.Type())
			var fv *types.Var
			for i := 0; i < su.NumFields(); i++ {
				if su.Field(i).Name() == m.Field {
					fv = su.Field(i)
				}
			}
			pred := prog.ByKey[pkgPath+":"+m.Type+"."+m.Pred]
			if fv == nil || pred == nil {
				return nil, fmt.Errorf("%s: memo %s.%s %s: field or predicate not found (hint-mismatch)", m.Line, m.Type, m.Field, m.Pred)
			}
			prog.Memo[fieldKeyName(obj.Type(), fv)] = pred
		}
	}
	return prog, nil
}

// Lookup finds a function by "pkgshort.Key" or "pkgpath:Key".
func (p *Program) Lookup(name string) *FuncInfo {
	if fi := p.ByKey[name]; fi != nil {
		return fi
	}
	for k, fi := range p.ByKey {
		i := strings.Index(k, ":")
		if shortPkg(k[:i])+"."+k[i+1:] == name {
			return fi
		}
	}
	return nil
}

// ContractFor returns the contract that applies to a call of fn (declared function or interface method).
func (p *Program) ContractFor(fn *types.Func) *Contract {
	if fi := p.Funcs[fn]; fi != nil {
		return fi.C
	}
	// interface method: find the named interface that declares it
	if fn.Pkg() == nil {
		return nil
	}
	sig := fn.Type().(*types.Signature)
	if sig.Recv() == nil {
		// plain function of an external package: `iface func (__static *alias.T) F(...)` (the receiver is a
		// placeholder that only says which package F belongs to)
		for k, c := range p.IfaceC {
			if c.RecvName == "__static" && strings.HasPrefix(k, fn.Pkg().Path()+":") && strings.HasSuffix(k, "."+fn.Name()) {
				return c
			}
		}
		return nil
	}
	rt := sig.Recv().Type()
	if pt, ok := rt.(*types.Pointer); ok {
		rt = pt.Elem()
	}
	if n, ok := rt.(*types.Named); ok {
		return p.IfaceC[fn.Pkg().Path()+":"+n.Obj().Name()+"."+fn.Name()]
	}
	// method of an interface literal embedded in a named interface: search by name
	for k, c := range p.IfaceC {
		if strings.HasPrefix(k, fn.Pkg().Path()+":") && strings.HasSuffix(k, "."+fn.Name()) {
			return c
		}
	}
	return nil
}


// checkPrivate: a private key is exempt from the frame obligations of other packages' functions; that is sound only
// if those packages can neither name nor touch the location. Unexported fields are protected by the language; for
// the rest this scan rejects, in every other loaded repository package: a use of a private (exported) field, an
// expression of a private map type, and a mention of a private ghost field in a contract.
func (p *Program) checkPrivate() error {
	if len(p.Private) == 0 {
		return nil
	}
	for pkgPath, pkg := range p.Pkgs {
		if pkg.TypesInfo == nil {
			continue
		}
		for se, sl := range pkg.TypesInfo.Selections {
			if sl.Kind() != types.FieldVal {
				continue
			}
			v, ok := sl.Obj().(*types.Var)
			if !ok {
				continue
			}
			rt := sl.Recv()
			if pt, ok := rt.Underlying().(*types.Pointer); ok {
				rt = pt.Elem()
			}
			if structOf(rt) == nil {
				continue
			}
			label := frameLabel(fieldKeyName(rt, v))
			if owner := p.Private[label]; owner != "" && owner != pkgPath {
				return fmt.Errorf("%s: field %s is declared private by %s but used in %s", p.Fset.Position(se.Pos()), label, owner, pkgPath)
			}
		}
		for x, tv := range pkg.TypesInfo.Types {
			mt, ok := tv.Type.(*types.Map)
			if !ok {
				continue
			}
			for _, k := range mapKeyNames(mt) {
				if owner := p.Private[frameLabel(k)]; owner != "" && owner != pkgPath {
					return fmt.Errorf("%s: map type %s is declared private by %s but used in %s", p.Fset.Position(x.Pos()), mt, owner, pkgPath)
				}
			}
		}
	}
	for label, owner := range p.Private {
		if !strings.HasPrefix(label, "ghost:") {
			continue
		}
		name := label[strings.Index(label, ".")+1:]
		for pkgPath, pc := range p.PC {
			if pkgPath == owner {
				continue
			}
			for _, c := range pc.Contracts {
				for _, cl := range c.allClauses() {
					if strings.Contains(cl.Src, "G_"+name+"(") {
						return fmt.Errorf("%s: ghost field %s is declared private by %s but mentioned in a contract of %s", cl.Line, label, owner, pkgPath)
					}
				}
			}
		}
	}
	return nil
}
