package vc

import (
	"os"
	"fmt"
	"go/ast"
	"go/constant"
	"go/token"
	"go/types"
	"strings"
)

// frame is one activation (the verified function or an inlined callee).
type frame struct {
	fi        *FuncInfo
	info      *types.Info
	results   []types.Object // result variables (named, or synthesized for unnamed)
	rets      []*State       // states at return (result values in Vars under results)
	breaks    map[string][]*State
	conts     map[string][]*State
	defers    []deferred
	loopOrd   int
	loopDepth int // > 0 while a loop body of this frame is being executed
	labels    map[ast.Stmt]string // loop statement -> label
	closure   bool
	entry     *State // state at entry (for __old inside inlined callee specs; unused)
	callSeen  map[string]int
}

type deferred struct {
	call *ast.CallExpr
	args []Term
	// armed: ghost boolean, true on the paths that executed the defer statement (a defer statement inside an if, or
	// after an early return, is not registered on the other paths); nil = registered inside a loop: runs on every path
	armed types.Object
}

type visInfo struct {
	ord   int
	vis   types.Object // pseudo object holding the visited set
	ksort string
	dom   func(st *State) Term
	iter  types.Object // pseudo object holding the iteration counter (range over slice)
	cnt   types.Object // pseudo object: number of completed iterations (range over map)
	seq   Term         // the sequence being ranged over (range over slice)
}

// Exec verifies one function.
type Exec struct {
	havocSeq int // ids naming unknown heaps (State.HavocID)
	capObj   map[string]types.Object // ghost variables of `call f capture[label] e`
	callArgExprs []ast.Expr // argument expressions of the call a call-site assertion is evaluated at
	P       *Program
	Ctx     *Ctx
	S       *Sorts
	Fn      *FuncInfo
	mode    string
	safety  bool
	keySort map[string]string
	touched map[string]bool
	old     *State
	frames  []*frame
	boxed   map[types.Object]bool
	cinfo   *types.Info
	spec    int // >0: evaluating a specification expression
	bound   map[types.Object]Term
	Assumed map[string]bool
	Unsup   []string
	dynIDs  map[string]int
	vis     []visInfo
	depth   int
	safeN   map[string]int
	pseudo  int
	Dropped map[string]int
	cntDefs map[string]string
	specOldOverride *State
	loopEntry []*State
	hints   map[string]bool
	retSubst map[*ast.Ident]types.Object
	curStmtPos token.Pos
	closures map[types.Object]*ast.FuncLit
	boxAx    map[string]bool
	borrowed map[types.Object]bool
	readKeys map[string]bool // heap field keys read by executed code (not by specifications)
	floatN   int
	sendValue ast.Expr // the value expression of the send statement whose assertions are being evaluated
	loopsUsed map[int]bool
	UsedContracts map[string]bool
	loopOrdOf map[ast.Stmt]int
	entryParams map[types.Object]Term
	callAsserted map[*CallAssert]bool
	specRes []Term
	specOld *State
	callArgs []Term
	callRecv Term
	lastGiven map[string][]designator
	memoBusy int
	memoN    map[string]int
	pendingAssert string
	assertFor map[*ast.CallExpr]bool
	tainted map[types.Object]bool // slice variables that may share their backing array with a caller's slice
	aliasN  int
	keepVar map[types.Object]bool // function-level locals mentioned in ensures clauses: kept across merges
	customEncSeen map[string]bool // custom encoding methods already reported for this function
	armedVar map[types.Object]bool // ghost flags of defer statements: false on a path that did not set them
	calledObj map[string]types.Object   // callee name -> ghost "has been called" flag
	lockObj   map[string]types.Object   // text of a mutex expression the function locks -> ghost depth counter (Lock +1, Unlock -1)
	lastRetObj map[string][]types.Object // callee name -> ghost copies of the results of the last call
}

func (e *Exec) fr() *frame { return e.frames[len(e.frames)-1] }

func (e *Exec) unsupported(pos token.Pos, format string, args ...interface{}) {
	msg := fmt.Sprintf(format, args...)
	if pos.IsValid() {
		msg = e.P.Fset.Position(pos).String() + ": " + msg
	}
	e.Unsup = append(e.Unsup, msg)
}

func (e *Exec) typeOf(x ast.Expr) types.Type {
	for i := len(e.frames) - 1; i >= 0; i-- {
		if tv, ok := e.frames[i].info.Types[x]; ok && tv.Type != nil {
			return tv.Type
		}
	}
	if e.cinfo != nil {
		if tv, ok := e.cinfo.Types[x]; ok && tv.Type != nil {
			return tv.Type
		}
	}
	for _, p := range e.P.Pkgs {
		if tv, ok := p.TypesInfo.Types[x]; ok && tv.Type != nil {
			return tv.Type
		}
	}
	if id, ok := x.(*ast.Ident); ok {
		if o := e.objOf(id); o != nil {
			return o.Type()
		}
	}
	return nil
}

func (e *Exec) tvOf(x ast.Expr) (types.TypeAndValue, bool) {
	for i := len(e.frames) - 1; i >= 0; i-- {
		if tv, ok := e.frames[i].info.Types[x]; ok {
			return tv, true
		}
	}
	if e.cinfo != nil {
		if tv, ok := e.cinfo.Types[x]; ok {
			return tv, true
		}
	}
	for _, p := range e.P.Pkgs {
		if tv, ok := p.TypesInfo.Types[x]; ok {
			return tv, true
		}
	}
	return types.TypeAndValue{}, false
}

func (e *Exec) objOf(id *ast.Ident) types.Object {
	if e.retSubst != nil {
		if o, ok := e.retSubst[id]; ok {
			return o
		}
	}
	for i := len(e.frames) - 1; i >= 0; i-- {
		inf := e.frames[i].info
		if o := inf.Uses[id]; o != nil {
			return o
		}
		if o := inf.Defs[id]; o != nil {
			return o
		}
	}
	if e.cinfo != nil {
		if o := e.cinfo.Uses[id]; o != nil {
			return o
		}
		if o := e.cinfo.Defs[id]; o != nil {
			return o
		}
	}
	for _, p := range e.P.Pkgs {
		if o := p.TypesInfo.Uses[id]; o != nil {
			return o
		}
		if o := p.TypesInfo.Defs[id]; o != nil {
			return o
		}
	}
	return nil
}

func (e *Exec) selectionOf(x *ast.SelectorExpr) *types.Selection {
	for i := len(e.frames) - 1; i >= 0; i-- {
		if s := e.frames[i].info.Selections[x]; s != nil {
			return s
		}
	}
	if e.cinfo != nil {
		if s := e.cinfo.Selections[x]; s != nil {
			return s
		}
	}
	for _, p := range e.P.Pkgs {
		if s := p.TypesInfo.Selections[x]; s != nil {
			return s
		}
	}
	return nil
}

func (e *Exec) pos(p token.Pos) string {
	ps := e.P.Fset.Position(p)
	f := ps.Filename
	if i := strings.Index(f, "/src/"); i >= 0 {
		f = f[i+1:]
	}
	return fmt.Sprintf("%s:%d", f, ps.Line)
}

// newPseudo creates a variable object that does not exist in the source (result slots, ghost loop state).
func (e *Exec) newPseudo(name string, t types.Type) types.Object {
	e.pseudo++
	return types.NewVar(token.NoPos, nil, fmt.Sprintf("%s$%d", name, e.pseudo), t)
}

// ---------------------------------------------------------------------------------------------
// safety obligations

func exprText(fset *token.FileSet, x ast.Node) string {
	var b strings.Builder
	ast.Inspect(x, func(n ast.Node) bool {
		switch v := n.(type) {
		case *ast.Ident:
			b.WriteString(v.Name)
			b.WriteString(" ")
		case *ast.BasicLit:
			b.WriteString(v.Value)
			b.WriteString(" ")
		case *ast.SelectorExpr, *ast.IndexExpr, *ast.SliceExpr, *ast.StarExpr, *ast.CallExpr, *ast.BinaryExpr:
			b.WriteString(fmt.Sprintf("%T", n)[5:8])
		}
		return true
	})
	return b.String()
}

func shortHash(s string) string {
	var h uint32 = 2166136261
	for i := 0; i < len(s); i++ {
		h ^= uint32(s[i])
		h *= 16777619
	}
	return fmt.Sprintf("%06x", h&0xffffff)
}

// safe emits (when safety is on) the obligation that cond holds at node, then continues under cond.
func (e *Exec) safe(st *State, kind string, node ast.Node, cond Term) {
	if e.spec > 0 {
		return
	}
	if cond.S == "true" {
		return
	}
	if e.safety {
		txt := exprText(e.P.Fset, node)
		base := fmt.Sprintf("%s/safe/%s/%s", e.fnName(), kind, shortHash(e.fr().fi.Key+"|"+txt))
		e.safeN[base]++
		name := fmt.Sprintf("%s#%d", base, e.safeN[base])
		o := e.Ctx.AddObligation(e.Fn.FullName(), "safe", name, st.PC, cond, e.pos(node.Pos()))
		o.Extra = nil
	}
	e.assume(st, cond)
}

func (e *Exec) fnName() string { return e.Fn.FullName() }

// memoPred evaluates the memo predicate (a ghost method with a single return) for object ref in st.
func (e *Exec) memoPred(st *State, pred *FuncInfo, ref Term) Term {
	e.memoBusy++
	e.spec++
	defer func() { e.spec--; e.memoBusy-- }()
	f := e.pushFrame(pred, pred.Pkg.TypesInfo)
	defer e.popFrame()
	sub := st.Clone()
	e.bindSignature(sub, f, pred.Decl, pred.Decl.Type, ref, nil)
	ret, ok := pred.Decl.Body.List[0].(*ast.ReturnStmt)
	if !ok || len(ret.Results) != 1 {
		e.unsupported(pred.Decl.Pos(), "memo predicate must be a single return")
		return True
	}
	return e.eval(sub, ret.Results[0])
}

// rootIdent returns the variable at the root of a slice expression (x, x[a:b], (x)).
func rootIdent(x ast.Expr) *ast.Ident {
	for {
		switch v := x.(type) {
		case *ast.ParenExpr:
			x = v.X
		case *ast.SliceExpr:
			x = v.X
		case *ast.Ident:
			return v
		default:
			return nil
		}
	}
}

// computeTaint: slice-typed parameters of the verified function, and locals assigned from them (directly, by
// re-slicing or by append), may share their backing array with the caller's slice. Slices have value
// semantics in this verifier, so a write through such a variable would be invisible to the caller: it is
// reported as a failed obligation instead (fail closed).
func (e *Exec) computeTaint(fi *FuncInfo) {
	e.tainted = map[types.Object]bool{}
	info := fi.Pkg.TypesInfo
	for _, pl := range fi.Decl.Type.Params.List {
		for _, n := range pl.Names {
			if o := info.Defs[n]; o != nil {
				if _, ok := o.Type().Underlying().(*types.Slice); ok {
					e.tainted[o] = true
				}
			}
		}
	}
	for changed := true; changed; {
		changed = false
		ast.Inspect(fi.Decl.Body, func(n ast.Node) bool {
			as, ok := n.(*ast.AssignStmt)
			if !ok || len(as.Lhs) != len(as.Rhs) {
				return true
			}
			for i, r := range as.Rhs {
				src := r
				if c, ok := r.(*ast.CallExpr); ok {
					if id, ok := c.Fun.(*ast.Ident); ok && id.Name == "append" && len(c.Args) > 0 {
						src = c.Args[0]
					}
				}
				ri := rootIdent(src)
				li, _ := as.Lhs[i].(*ast.Ident)
				if ri == nil || li == nil {
					continue
				}
				ro := info.Uses[ri]
				lo := info.Defs[li]
				if lo == nil {
					lo = info.Uses[li]
				}
				if ro != nil && lo != nil && e.tainted[ro] && !e.tainted[lo] {
					e.tainted[lo] = true
					changed = true
				}
			}
			return true
		})
	}
}

// computeBorrowed: the wider notion used by __owned(x). A slice variable is "borrowed" if it may share its backing
// array with something the function did not allocate: slice parameters, slices loaded from a field (x.f), slices
// returned by an accessor (a function or method whose body is `return <field selection>`), and anything assigned,
// re-sliced or appended FROM such a variable (append's first argument: the result may reuse its array).
func (e *Exec) computeBorrowed(fi *FuncInfo) {
	e.borrowed = map[types.Object]bool{}
	for o := range e.tainted {
		e.borrowed[o] = true
	}
	info := fi.Pkg.TypesInfo
	isSlice := func(x ast.Expr) bool {
		if tv, ok := info.Types[x]; ok && tv.Type != nil {
			_, s := tv.Type.Underlying().(*types.Slice)
			return s
		}
		return false
	}
	var fromHeap func(x ast.Expr) bool
	fromHeap = func(x ast.Expr) bool {
		switch v := x.(type) {
		case *ast.ParenExpr:
			return fromHeap(v.X)
		case *ast.SliceExpr:
			return fromHeap(v.X)
		case *ast.SelectorExpr:
			if sel := info.Selections[v]; sel != nil && sel.Kind() == types.FieldVal {
				return isSlice(v)
			}
		case *ast.CallExpr:
			if !isSlice(v) {
				return false
			}
			var fn *types.Func
			switch f := v.Fun.(type) {
			case *ast.SelectorExpr:
				fn, _ = info.Uses[f.Sel].(*types.Func)
			case *ast.Ident:
				fn, _ = info.Uses[f].(*types.Func)
			}
			if fn == nil {
				return false
			}
			if cfi := e.P.Funcs[fn]; cfi != nil && cfi.Decl.Body != nil && len(cfi.Decl.Body.List) == 1 {
				if r, ok := cfi.Decl.Body.List[0].(*ast.ReturnStmt); ok && len(r.Results) == 1 {
					if sx, ok := r.Results[0].(*ast.SelectorExpr); ok {
						if sel := cfi.Pkg.TypesInfo.Selections[sx]; sel != nil && sel.Kind() == types.FieldVal {
							return true
						}
					}
				}
			}
		}
		return false
	}
	for changed := true; changed; {
		changed = false
		mark := func(lhs ast.Expr, src ast.Expr) {
			li, _ := lhs.(*ast.Ident)
			if li == nil {
				return
			}
			lo := info.Defs[li]
			if lo == nil {
				lo = info.Uses[li]
			}
			if lo == nil || e.borrowed[lo] {
				return
			}
			if c, ok := src.(*ast.CallExpr); ok {
				if id, ok := c.Fun.(*ast.Ident); ok && id.Name == "append" && len(c.Args) > 0 {
					src = c.Args[0]
				}
			}
			b := fromHeap(src)
			if !b {
				// a pointer to a field (or element) of a pre-existing object: p := &x.f
				if u, ok := src.(*ast.UnaryExpr); ok && u.Op == token.AND {
					switch ux := u.X.(type) {
					case *ast.SelectorExpr:
						if sel := info.Selections[ux]; sel != nil && sel.Kind() == types.FieldVal {
							b = true
						}
					case *ast.IndexExpr:
						b = true
					}
				}
			}
			if !b {
				if ri := rootIdent(src); ri != nil {
					if ro := info.Uses[ri]; ro != nil && e.borrowed[ro] {
						if _, isSl := ro.Type().Underlying().(*types.Slice); isSl {
							b = true
						}
					}
				}
			}
			if b {
				e.borrowed[lo] = true
				changed = true
			}
		}
		ast.Inspect(fi.Decl.Body, func(n ast.Node) bool {
			switch as := n.(type) {
			case *ast.AssignStmt:
				if len(as.Lhs) == len(as.Rhs) {
					for i := range as.Rhs {
						mark(as.Lhs[i], as.Rhs[i])
					}
				}
			case *ast.IfStmt:
				// `if x := f(); cond {` is an AssignStmt in Init: visited by Inspect
			}
			return true
		})
	}
}

// noteSliceWrite: an element write, sort or copy through x.
func (e *Exec) noteSliceWrite(st *State, node ast.Node, x ast.Expr) {
	if len(e.frames) != 1 || e.spec > 0 || e.tainted == nil {
		return
	}
	id := rootIdent(x)
	if id == nil {
		return
	}
	o := e.objOf(id)
	if o == nil || !e.tainted[o] {
		return
	}
	e.aliasN++
	e.Ctx.AddObligation(e.Fn.FullName(), "alias", fmt.Sprintf("%s/alias/param-slice-write/%s#%d", e.fnName(), id.Name, e.aliasN), st.PC, False, e.pos(node.Pos()))
}

// havocMemo: memo cells may be filled by any callee (they are outside every frame condition).
func (e *Exec) havocMemo(st *State) {
	var ks []string
	for k := range e.P.Memo {
		ks = append(ks, k)
	}
	sortStrings(ks)
	for _, k := range ks {
		if e.ensureKeySort(k) {
			st.Heap[k] = e.Ctx.Fresh("memoh", e.keySort[k])
		}
	}
}

// memoWritten: every write of a memo cell must respect its predicate.
func (e *Exec) memoWritten(st *State, key string, pred *FuncInfo, ref Term) {
	t := e.memoPred(st, pred, ref)
	if e.memoN == nil {
		e.memoN = map[string]int{}
	}
	lbl := frameLabel(key)
	e.memoN[lbl]++
	e.Ctx.AddObligation(e.Fn.FullName(), "memo", fmt.Sprintf("%s/memo/%s#%d", e.fnName(), lbl, e.memoN[lbl]), st.PC, t, e.pos(e.curStmtPos))
}

// ---------------------------------------------------------------------------------------------
// integer arithmetic

func (e *Exec) declArith() {
	e.Ctx.DeclareSortRaw("$tdiv", "(define-fun tdiv ((a Int) (b Int)) Int (ite (>= a 0) (ite (> b 0) (div a b) (- (div a (- b)))) (ite (> b 0) (- (div (- a) b)) (div (- a) (- b)))))")
	e.Ctx.DeclareSortRaw("$tmod", "(define-fun tmod ((a Int) (b Int)) Int (- a (* b (tdiv a b))))")
}

func isPosLit(t Term) bool {
	if t.S == "" || t.S == "0" {
		return false
	}
	for _, c := range t.S {
		if c < '0' || c > '9' {
			return false
		}
	}
	return true
}

// tdiv / tmod: Go's truncated division. For a positive literal divisor the definition is inlined so that
// the term stays linear.
func (e *Exec) tdiv(a, b Term) Term {
	if isPosLit(b) {
		a = e.Ctx.Define("dv", a)
		return e.Ctx.Define("q", Term{fmt.Sprintf("(ite (>= %s 0) (div %s %s) (- (div (- %s) %s)))", a.S, a.S, b.S, a.S, b.S), SInt})
	}
	e.declArith()
	return app(SInt, "tdiv", a, b)
}

func (e *Exec) tmod(a, b Term) Term {
	if isPosLit(b) {
		a = e.Ctx.Define("dv", a)
		return e.Ctx.Define("m", Term{fmt.Sprintf("(ite (>= %s 0) (mod %s %s) (- (mod (- %s) %s)))", a.S, a.S, b.S, a.S, b.S), SInt})
	}
	e.declArith()
	return app(SInt, "tmod", a, b)
}

func (e *Exec) wrap(v Term, t types.Type) Term {
	lo, hi, ok := intRange(t)
	if !ok {
		return v
	}
	// ((v - lo) mod 2^k) + lo
	var width string
	switch hi {
	case "9223372036854775807", "18446744073709551615":
		width = "18446744073709551616"
	case "2147483647", "4294967295":
		width = "4294967296"
	case "32767", "65535":
		width = "65536"
	default:
		width = "256"
	}
	return Term{fmt.Sprintf("(+ (mod (- %s %s) %s) %s)", v.S, IntS(lo).S, width, IntS(lo).S), SInt}
}

// arith applies the function's integer mode to the mathematical result v of an operation of type t.
func (e *Exec) arith(st *State, node ast.Node, v Term, t types.Type) Term {
	if v.Sort != SInt {
		return v
	}
	if e.spec > 0 {
		return v
	}
	switch e.mode {
	case "checked":
		if lo, hi, ok := intRange(t); ok {
			if e.safety {
				e.safe(st, "overflow", node, And(Ge(v, IntS(lo)), Le(v, IntS(hi))))
			} else {
				txt := exprText(e.P.Fset, node)
				base := fmt.Sprintf("%s/safe/overflow/%s", e.fnName(), shortHash(e.fr().fi.Key+"|"+txt))
				e.safeN[base]++
				e.Ctx.AddObligation(e.Fn.FullName(), "safe", fmt.Sprintf("%s#%d", base, e.safeN[base]), st.PC, And(Ge(v, IntS(lo)), Le(v, IntS(hi))), e.pos(node.Pos()))
				e.assume(st, And(Ge(v, IntS(lo)), Le(v, IntS(hi))))
			}
		}
		return v
	case "wrap":
		return e.Ctx.Define("w", e.wrap(v, t))
	default:
		// "ideal": signed arithmetic is treated as mathematical (disclosed assumption); unsigned arithmetic is not -
		// a mathematical difference can be negative while every unsigned value is assumed non-negative, so it keeps
		// its exact modular semantics
		if b, ok := t.Underlying().(*types.Basic); ok && b.Info()&types.IsUnsigned != 0 {
			if _, _, ok := intRange(t); ok {
				return e.Ctx.Define("w", e.wrap(v, t))
			}
		}
	}
	return v
}

// ---------------------------------------------------------------------------------------------
// expressions

func constTerm(e *Exec, v constant.Value, t types.Type) (Term, bool) {
	switch v.Kind() {
	case constant.Bool:
		if constant.BoolVal(v) {
			return True, true
		}
		return False, true
	case constant.Int:
		if t != nil {
			if b, ok := t.Underlying().(*types.Basic); ok && b.Info()&types.IsFloat != 0 {
				return Term{v.ExactString() + ".0", SReal}, true
			}
		}
		return IntS(v.ExactString()), true
	case constant.String:
		return e.S.StrLit(constant.StringVal(v)), true
	case constant.Float:
		if constant.ToInt(v).Kind() == constant.Int {
			iv := constant.ToInt(v)
			if t != nil {
				if b, ok := t.Underlying().(*types.Basic); ok && b.Info()&types.IsInteger != 0 {
					return IntS(iv.ExactString()), true
				}
			}
			return Term{iv.ExactString() + ".0", SReal}, true
		}
		return Term{}, false
	}
	return Term{}, false
}

// eval evaluates x in st (st is updated by side effects: calls, allocations, safety assumptions).
func (e *Exec) eval(st *State, x ast.Expr) Term {
	if tv, ok := e.tvOf(x); ok && tv.Value != nil {
		if t, ok := constTerm(e, tv.Value, tv.Type); ok {
			return t
		}
	}
	switch x := x.(type) {
	case *ast.ParenExpr:
		return e.eval(st, x.X)
	case *ast.BasicLit:
		e.unsupported(x.Pos(), "literal %s", x.Value)
		return Int(0)
	case *ast.Ident:
		return e.evalIdent(st, x)
	case *ast.SelectorExpr:
		return e.evalSelector(st, x)
	case *ast.StarExpr:
		return e.evalDeref(st, x)
	case *ast.UnaryExpr:
		return e.evalUnary(st, x)
	case *ast.BinaryExpr:
		return e.evalBinary(st, x)
	case *ast.IndexExpr:
		return e.evalIndex(st, x)
	case *ast.SliceExpr:
		return e.evalSliceExpr(st, x)
	case *ast.CallExpr:
		rs := e.evalCall(st, x)
		if len(rs) == 0 {
			return Int(0)
		}
		return rs[0]
	case *ast.CompositeLit:
		return e.evalCompositeLit(st, x, false)
	case *ast.TypeAssertExpr:
		v, _ := e.evalTypeAssert(st, x, false)
		return v
	case *ast.FuncLit:
		// closure value: represented by a fresh reference; calls to it are resolved syntactically
		return e.allocRef(st, "closure")
	case *ast.IndexListExpr:
		return e.eval(st, x.X)
	}
	e.unsupported(x.Pos(), "expression %T", x)
	return Int(0)
}

// evalTo evaluates x and converts it to the target type (nil, interface boxing).
func (e *Exec) evalTo(st *State, x ast.Expr, target types.Type) Term {
	if target == nil {
		return e.eval(st, x)
	}
	if isNilExpr(e, x) {
		return e.S.Zero(e.S.SortOf(target))
	}
	v := e.eval(st, x)
	return e.convertTo(st, v, e.typeOf(x), target)
}

func isNilExpr(e *Exec, x ast.Expr) bool {
	if p, ok := x.(*ast.ParenExpr); ok {
		return isNilExpr(e, p.X)
	}
	id, ok := x.(*ast.Ident)
	if !ok || id.Name != "nil" {
		return false
	}
	_, isNil := e.objOf(id).(*types.Nil)
	return isNil
}

func isInterface(t types.Type) bool {
	if t == nil {
		return false
	}
	_, ok := t.Underlying().(*types.Interface)
	return ok
}

// convertTo handles the implicit conversion of v (static type from) to type to.
func (e *Exec) convertTo(st *State, v Term, from, to types.Type) Term {
	if from == nil || to == nil {
		return v
	}
	if isInterface(to) && !isInterface(from) {
		if b, ok := from.Underlying().(*types.Basic); ok && b.Kind() == types.UntypedNil {
			return Int(0)
		}
		return e.box(st, v, from)
	}
	ts := e.S.SortOf(to)
	if v.Sort != ts {
		// untyped constant to float etc.
		if v.Sort == SInt && ts == SReal {
			e.noteFloatModel()
			return Term{"(to_real " + v.S + ")", SReal}
		}
	}
	return v
}

func (e *Exec) dynID(t types.Type) int {
	k := types.TypeString(t, nil)
	if id, ok := e.dynIDs[k]; ok {
		return id
	}
	id := len(e.dynIDs) + 1
	e.dynIDs[k] = id
	return id
}

func (e *Exec) declDyn() {
	e.Ctx.DeclareFun("dyntype", []string{SInt}, SInt)
}

// box converts a concrete value to an interface value (a reference).
func (e *Exec) box(st *State, v Term, from types.Type) Term {
	e.declDyn()
	id := e.dynID(from)
	switch from.Underlying().(type) {
	case *types.Pointer, *types.Map, *types.Chan, *types.Signature:
		e.Ctx.Assume(st.PC, Implies(Not(Eq(v, Int(0))), Eq(app(SInt, "dyntype", v), Int(int64(id)))))
		return v
	}
	srt := v.Sort
	bn := fmt.Sprintf("box_%d_%s", id, mangle(srt))
	un := fmt.Sprintf("unbox_%d_%s", id, mangle(srt))
	e.Ctx.DeclareFun(bn, []string{srt}, SInt)
	e.Ctx.DeclareFun(un, []string{SInt}, srt)
	b := app(SInt, bn, v)
	if strings.Contains(v.S, "!q") {
		// a quantifier-bound value is boxed (cache invariants range over boxed keys): the ground instance
		// below would be dropped, so the defining axiom of this box function is added once, with a pattern
		if e.boxAx == nil {
			e.boxAx = map[string]bool{}
		}
		if !e.boxAx[bn] {
			e.boxAx[bn] = true
			e.Ctx.Axiom(fmt.Sprintf("(forall ((bx!q0 %s)) (! (and (< (%s bx!q0) 0) (= (dyntype (%s bx!q0)) %d) (= (%s (%s bx!q0)) bx!q0)) :pattern ((%s bx!q0))))", srt, bn, bn, id, un, bn, bn))
			e.Ctx.NeedsQuant = true
		}
		return b
	}
	// ground instance of: box(x) < 0, dyntype(box(x)) = id, unbox(box(x)) = x
	e.Ctx.Assume(st.PC, And(Lt(b, Int(0)), Eq(app(SInt, "dyntype", b), Int(int64(id))), Eq(app(srt, un, b), v)))
	return b
}

func (e *Exec) unboxFn(t types.Type) string {
	e.declDyn()
	id := e.dynID(t)
	srt := e.S.SortOf(t)
	bn := fmt.Sprintf("box_%d_%s", id, mangle(srt))
	un := fmt.Sprintf("unbox_%d_%s", id, mangle(srt))
	e.Ctx.DeclareFun(bn, []string{srt}, SInt)
	e.Ctx.DeclareFun(un, []string{SInt}, srt)
	return un
}

// evalTypeAssert returns the value and the ok flag of x.(T).
func (e *Exec) evalTypeAssert(st *State, x *ast.TypeAssertExpr, commaOk bool) (Term, Term) {
	v := e.eval(st, x.X)
	if x.Type == nil {
		return v, True
	}
	T := e.typeOf(x.Type)
	e.declDyn()
	if isInterface(T) {
		ok := e.Ctx.Fresh("implements", SBool)
		e.Ctx.Assume(st.PC, Implies(ok, Not(Eq(v, Int(0)))))
		if !commaOk {
			e.safe(st, "assert", x, ok)
		}
		return Ite(ok, v, Int(0)), ok
	}
	id := e.dynID(T)
	is := And(Not(Eq(v, Int(0))), Eq(app(SInt, "dyntype", v), Int(int64(id))))
	var val Term
	switch T.Underlying().(type) {
	case *types.Pointer, *types.Map, *types.Chan, *types.Signature:
		val = v
	default:
		val = app(e.S.SortOf(T), e.unboxFn(T), v)
		// an interface value of dynamic type T is the box of its content (ground instance for this value)
		if !strings.Contains(v.S, "!q") {
			srt := e.S.SortOf(T)
			bn := fmt.Sprintf("box_%d_%s", id, mangle(srt))
			e.Ctx.Assume(st.PC, Implies(is, Eq(app(SInt, bn, val), v)))
		}
	}
	if !commaOk {
		e.safe(st, "assert", x, is)
		return val, True
	}
	is = e.Ctx.Define("is", is)
	return Ite(is, val, e.S.Zero(e.S.SortOf(T))), is
}

func (e *Exec) evalIdent(st *State, id *ast.Ident) Term {
	if id.Name == "_" {
		return Int(0)
	}
	obj := e.objOf(id)
	switch o := obj.(type) {
	case *types.Nil:
		return Int(0)
	case *types.Const:
		if t, ok := constTerm(e, o.Val(), o.Type()); ok {
			return t
		}
	case *types.Var:
		if t, ok := e.bound[o]; ok {
			return t
		}
		if e.boxed[o] {
			ref := st.Vars[o]
			return Select(e.heapGet(st, e.ptrKey(o.Type())), ref)
		}
		if t, ok := st.Vars[o]; ok {
			return t
		}
		if o.Pkg() != nil && o.Parent() == o.Pkg().Scope() {
			// package-level variable: unknown but fixed value
			name := "GV_" + mangle(o.Pkg().Name()+"."+o.Name())
			e.Ctx.DeclareConst(name, e.S.SortOf(o.Type()))
			e.Assumed["package variable "+o.Pkg().Name()+"."+o.Name()+" treated as an unknown constant"] = true
			return Term{name, e.S.SortOf(o.Type())}
		}
		if os.Getenv("GOVC_DEBUG") != "" {
			fmt.Printf("DEBUG no value: %s declared at %s (in %s)\n", id.Name, e.P.Fset.Position(o.Pos()), e.fnName())
		}
		e.unsupported(id.Pos(), "variable %s has no value", id.Name)
		return e.Ctx.Fresh("undef_"+id.Name, e.S.SortOf(o.Type()))
	case *types.Func:
		return e.allocRef(st, "funcval")
	}
	e.unsupported(id.Pos(), "identifier %s (%T)", id.Name, obj)
	return Int(0)
}

func (e *Exec) evalSelector(st *State, x *ast.SelectorExpr) Term {
	sel := e.selectionOf(x)
	if sel == nil {
		// qualified identifier pkg.Name
		obj := e.objOf(x.Sel)
		switch o := obj.(type) {
		case *types.Const:
			if t, ok := constTerm(e, o.Val(), o.Type()); ok {
				return t
			}
		case *types.Var:
			name := "GV_" + mangle(o.Pkg().Name()+"."+o.Name())
			e.Ctx.DeclareConst(name, e.S.SortOf(o.Type()))
			e.Assumed["package variable "+o.Pkg().Name()+"."+o.Name()+" treated as an unknown constant"] = true
			return Term{name, e.S.SortOf(o.Type())}
		case *types.Func:
			return e.allocRef(st, "funcval")
		}
		e.unsupported(x.Pos(), "qualified identifier %s", x.Sel.Name)
		return Int(0)
	}
	switch sel.Kind() {
	case types.FieldVal:
		return e.lvalOf(st, x).get(st)
	case types.MethodVal, types.MethodExpr:
		return e.allocRef(st, "methodval")
	}
	e.unsupported(x.Pos(), "selector kind")
	return Int(0)
}

func (e *Exec) evalDeref(st *State, x *ast.StarExpr) Term {
	return e.lvalOf(st, x).get(st)
}

func (e *Exec) evalUnary(st *State, x *ast.UnaryExpr) Term {
	switch x.Op {
	case token.NOT:
		return Not(e.eval(st, x.X))
	case token.SUB:
		v := e.eval(st, x.X)
		if v.Sort == SReal {
			return app(SReal, "-", v)
		}
		return e.arith(st, x, app(SInt, "-", v), e.typeOf(x))
	case token.ADD:
		return e.eval(st, x.X)
	case token.AND:
		return e.evalAddrOf(st, x)
	case token.ARROW:
		// channel receive: arbitrary value
		e.eval(st, x.X)
		return e.Ctx.Fresh("recv", e.S.SortOf(e.typeOf(x)))
	case token.XOR:
		v := e.eval(st, x.X)
		e.Ctx.DeclareFun("bit_not", []string{SInt}, SInt)
		return app(SInt, "bit_not", v)
	}
	e.unsupported(x.Pos(), "unary %s", x.Op)
	return Int(0)
}

func (e *Exec) evalAddrOf(st *State, x *ast.UnaryExpr) Term {
	inner := x.X
	for {
		if p, ok := inner.(*ast.ParenExpr); ok {
			inner = p.X
		} else {
			break
		}
	}
	switch in := inner.(type) {
	case *ast.CompositeLit:
		return e.evalCompositeLit(st, in, true)
	case *ast.Ident:
		obj := e.objOf(in)
		if v, ok := obj.(*types.Var); ok && e.boxed[v] {
			return st.Vars[v]
		}
	}
	// &x.f, &a[i], &local-not-boxed: copy into a fresh cell (aliasing with the original is not modelled)
	t := e.typeOf(inner)
	v := e.eval(st, inner)
	e.Assumed["address-of a field or element (&x.f) yields a copy; writes through it are not propagated back"] = true
	if structOf(t) != nil && !isPointer(t) {
		// the value already lives somewhere: its memo cells are assumed, not checked
		ref := e.allocRef(st, "cell")
		e.storeStructRaw(st, ref, t, v)
		return ref
	}
	return e.newCell(st, t, v)
}

// newCell allocates a cell holding value v of type t and returns the pointer.
func (e *Exec) newCell(st *State, t types.Type, v Term) Term {
	ref := e.allocRef(st, "cell")
	if structOf(t) != nil {
		if _, isPtr := t.Underlying().(*types.Pointer); !isPtr {
			e.storeStruct(st, ref, t, v)
			return ref
		}
	}
	k := e.ptrKey(t)
	e.heapSet(st, k, Store(e.heapGet(st, k), ref, v))
	return ref
}

func (e *Exec) evalBinary(st *State, x *ast.BinaryExpr) Term {
	switch x.Op {
	case token.LAND, token.LOR:
		a := e.eval(st, x.X)
		if e.spec > 0 {
			b := e.eval(st, x.Y)
			if x.Op == token.LAND {
				return And(a, b)
			}
			return Or(a, b)
		}
		if !e.hasEffects(x.Y) {
			// evaluate the right operand under the guard so that its safety obligations are conditional
			guard := a
			if x.Op == token.LOR {
				guard = Not(a)
			}
			sub := e.withPC(st, guard)
			b := e.eval(sub, x.Y)
			// safety assumptions made in sub are conditional; path condition of st unchanged
			if x.Op == token.LAND {
				return And(a, b)
			}
			return Or(a, b)
		}
		guard := a
		if x.Op == token.LOR {
			guard = Not(a)
		}
		sub := e.withPC(st, guard)
		b := e.eval(sub, x.Y)
		rest := e.withPC(st, Not(guard))
		var res Term
		if x.Op == token.LAND {
			res = And(a, b)
		} else {
			res = Or(a, b)
		}
		res = e.Ctx.Define("sc", res)
		m := e.Merge(sub, rest)
		if m != nil {
			*st = *m
		}
		return res
	}
	// comparisons with nil
	if x.Op == token.EQL || x.Op == token.NEQ {
		if isNilExpr(e, x.Y) || isNilExpr(e, x.X) {
			other := x.X
			if isNilExpr(e, x.X) {
				other = x.Y
			}
			v := e.eval(st, other)
			var isnil Term
			switch {
			case strings.HasPrefix(v.Sort, "Sl_"):
				isnil = e.S.SlNil(v)
			case v.Sort == SBytes:
				isnil = Eq(v, Term{"bytes_nil", SBytes})
			default:
				isnil = Eq(v, Int(0))
			}
			if x.Op == token.NEQ {
				return Not(isnil)
			}
			return isnil
		}
	}
	tx, ty := e.typeOf(x.X), e.typeOf(x.Y)
	a := e.eval(st, x.X)
	b := e.eval(st, x.Y)
	// mixed interface / concrete comparison
	if (x.Op == token.EQL || x.Op == token.NEQ) && !isRawGhost(x.X) && !isRawGhost(x.Y) {
		if isInterface(tx) && !isInterface(ty) {
			b = e.convertTo(st, b, ty, tx)
		} else if isInterface(ty) && !isInterface(tx) {
			a = e.convertTo(st, a, tx, ty)
		}
	}
	if a.Sort == SInt && b.Sort == SReal {
		a = Term{"(to_real " + a.S + ")", SReal}
	}
	if b.Sort == SInt && a.Sort == SReal {
		b = Term{"(to_real " + b.S + ")", SReal}
	}
	rt := e.typeOf(x)
	switch x.Op {
	case token.EQL:
		return Eq(a, b)
	case token.NEQ:
		return Not(Eq(a, b))
	case token.LSS, token.LEQ, token.GTR, token.GEQ:
		if a.Sort == SStr {
			lt := func(p, q Term) Term { return app(SBool, "str_lt", p, q) }
			switch x.Op {
			case token.LSS:
				return lt(a, b)
			case token.GTR:
				return lt(b, a)
			case token.LEQ:
				return Not(lt(b, a))
			default:
				return Not(lt(a, b))
			}
		}
		op := map[token.Token]string{token.LSS: "<", token.LEQ: "<=", token.GTR: ">", token.GEQ: ">="}[x.Op]
		return app(SBool, op, a, b)
	case token.ADD:
		if a.Sort == SStr {
			r := app(SStr, "str_cat", a, b)
			e.Ctx.Assume(st.PC, Eq(app(SInt, "str_len", r), Add(app(SInt, "str_len", a), app(SInt, "str_len", b))))
			return r
		}
		if a.Sort == SReal {
			return app(SReal, "+", a, b)
		}
		return e.arith(st, x, Add(a, b), rt)
	case token.SUB:
		if a.Sort == SReal {
			return app(SReal, "-", a, b)
		}
		return e.arith(st, x, Sub(a, b), rt)
	case token.MUL:
		if a.Sort == SReal {
			return app(SReal, "*", a, b)
		}
		return e.arith(st, x, Mul(a, b), rt)
	case token.QUO:
		if a.Sort == SReal {
			return app(SReal, "/", a, b)
		}
		e.safe(st, "div", x, Not(Eq(b, Int(0))))
		return e.arith(st, x, e.tdiv(a, b), rt)
	case token.REM:
		e.safe(st, "div", x, Not(Eq(b, Int(0))))
		return e.tmod(a, b)
	case token.AND, token.OR, token.XOR, token.SHL, token.SHR, token.AND_NOT:
		fn := "bit_" + map[token.Token]string{token.AND: "and", token.OR: "or", token.XOR: "xor", token.SHL: "shl", token.SHR: "shr", token.AND_NOT: "andnot"}[x.Op]
		e.Ctx.DeclareFun(fn, []string{SInt, SInt}, SInt)
		r := app(SInt, fn, a, b)
		e.assumeType(st, r, rt)
		return r
	}
	e.unsupported(x.Pos(), "binary %s", x.Op)
	return Int(0)
}

// isRawGhost: ghost builtins typed `any` whose value is the raw term (no interface boxing).
func isRawGhost(x ast.Expr) bool {
	if p, ok := x.(*ast.ParenExpr); ok {
		return isRawGhost(p.X)
	}
	c, ok := x.(*ast.CallExpr)
	if !ok {
		return false
	}
	id, ok := c.Fun.(*ast.Ident)
	return ok && (id.Name == "__arg" || id.Name == "__lastret" || id.Name == "__recv")
}

// hasEffects reports whether evaluating x may change the state (calls other than pure accessors).
func (e *Exec) hasEffects(x ast.Expr) bool {
	eff := false
	ast.Inspect(x, func(n ast.Node) bool {
		if c, ok := n.(*ast.CallExpr); ok {
			if tv, ok := e.tvOf(c.Fun); ok && tv.IsType() {
				return true
			}
			if id, ok := c.Fun.(*ast.Ident); ok {
				if _, isB := e.objOf(id).(*types.Builtin); isB && (id.Name == "len" || id.Name == "cap") {
					return true
				}
				if strings.HasPrefix(id.Name, "__") {
					return true
				}
			}
			eff = true
			return false
		}
		if _, ok := n.(*ast.FuncLit); ok {
			return false
		}
		return true
	})
	return eff
}

func (e *Exec) evalIndex(st *State, x *ast.IndexExpr) Term {
	if tv, ok := e.tvOf(x.X); ok && (tv.IsType() || isGenericFunc(tv.Type)) {
		return e.eval(st, x.X)
	}
	xt := e.typeOf(x.X)
	if n, ok := isGmap(xt); ok {
		m := e.eval(st, x.X)
		k := e.evalTo(st, x.Index, n.TypeArgs().At(0))
		v := Select(e.S.VMVal(m), k)
		// references held in a ghost map denote objects that exist
		e.assumeType(st, v, n.TypeArgs().At(1))
		return v
	}
	switch u := xt.Underlying().(type) {
	case *types.Map:
		v, _ := e.mapLookup(st, x, u)
		return v
	case *types.Basic: // string index
		s := e.eval(st, x.X)
		i := e.eval(st, x.Index)
		e.safe(st, "index", x, And(Ge(i, Int(0)), Lt(i, app(SInt, "str_len", s))))
		r := app(SInt, "str_at", s, i)
		e.Ctx.Assume(st.PC, And(Ge(r, Int(0)), Le(r, Int(255))))
		return r
	}
	return e.lvalOf(st, x).get(st)
}

func isGenericFunc(t types.Type) bool {
	sig, ok := t.(*types.Signature)
	return ok && sig.TypeParams() != nil && sig.TypeParams().Len() > 0
}

// mapLookup evaluates m[k]; returns value (zero if absent) and presence.
func (e *Exec) mapLookup(st *State, x *ast.IndexExpr, mt *types.Map) (Term, Term) {
	m := e.eval(st, x.X)
	k := e.evalTo(st, x.Index, mt.Key())
	return e.mapGet(st, m, k, mt)
}

func (e *Exec) mapGet(st *State, m, k Term, mt *types.Map) (Term, Term) {
	mk := e.mapKey(mt)
	dom := Select(e.heapGet(st, mk.dom), m)
	val := Select(e.heapGet(st, mk.val), m)
	ln := Select(e.heapGet(st, mk.ln), m)
	in := e.Ctx.Define("in", And(Not(Eq(m, Int(0))), Select(dom, k)))
	e.Ctx.Assume(st.PC, Implies(in, Ge(ln, Int(1))))
	e.Ctx.Assume(st.PC, Ge(ln, Int(0)))
	v := Ite(in, Select(val, k), e.S.Zero(e.S.SortOf(mt.Elem())))
	v = e.Ctx.Define("mv", v)
	e.assumeType(st, v, mt.Elem())
	return v, in
}

func (e *Exec) mapSet(st *State, node ast.Node, m, k, v Term, mt *types.Map) {
	e.safe(st, "mapwrite", node, Not(Eq(m, Int(0))))
	mk := e.mapKey(mt)
	domA := e.heapGet(st, mk.dom)
	valA := e.heapGet(st, mk.val)
	lnA := e.heapGet(st, mk.ln)
	dom := Select(domA, m)
	was := Select(dom, k)
	e.heapSet(st, mk.ln, Store(lnA, m, e.Ctx.Define("ml", Ite(was, Select(lnA, m), Add(Select(lnA, m), Int(1))))))
	e.heapSet(st, mk.dom, Store(domA, m, Store(dom, k, True)))
	e.heapSet(st, mk.val, Store(valA, m, Store(Select(valA, m), k, v)))
}

func (e *Exec) mapDelete(st *State, m, k Term, mt *types.Map) {
	mk := e.mapKey(mt)
	domA := e.heapGet(st, mk.dom)
	lnA := e.heapGet(st, mk.ln)
	dom := Select(domA, m)
	was := And(Not(Eq(m, Int(0))), Select(dom, k))
	e.heapSet(st, mk.ln, Store(lnA, m, e.Ctx.Define("ml", Ite(was, Sub(Select(lnA, m), Int(1)), Select(lnA, m)))))
	e.heapSet(st, mk.dom, Store(domA, m, Store(dom, k, False)))
}

func (e *Exec) newMap(st *State, mt *types.Map) Term {
	ref := e.allocRef(st, "map")
	mk := e.mapKey(mt)
	ks := e.S.SortOf(mt.Key())
	e.heapSet(st, mk.dom, Store(e.heapGet(st, mk.dom), ref, e.S.ConstArray(ks, SBool, False)))
	e.heapSet(st, mk.ln, Store(e.heapGet(st, mk.ln), ref, Int(0)))
	// touch val so that it is part of the state
	e.heapGet(st, mk.val)
	return ref
}

func (e *Exec) evalSliceExpr(st *State, x *ast.SliceExpr) Term {
	s := e.eval(st, x.X)
	var lo, hi Term
	lo = Int(0)
	if x.Low != nil {
		lo = e.eval(st, x.Low)
	}
	switch {
	case s.Sort == SStr:
		ln := app(SInt, "str_len", s)
		hi = ln
		if x.High != nil {
			hi = e.eval(st, x.High)
		}
		e.safe(st, "slice", x, And(Le(Int(0), lo), Le(lo, hi), Le(hi, ln)))
		r := app(SStr, "str_sub", s, lo, hi)
		e.Ctx.Assume(st.PC, Eq(app(SInt, "str_len", r), Sub(hi, lo)))
		return r
	case s.Sort == SBytes:
		ln := app(SInt, "bytes_len", s)
		hi = ln
		if x.High != nil {
			hi = e.eval(st, x.High)
		}
		e.safe(st, "slice", x, And(Le(Int(0), lo), Le(lo, hi), Le(hi, ln)))
		e.Ctx.DeclareFun("bytes_sub", []string{SBytes, SInt, SInt}, SBytes)
		r := app(SBytes, "bytes_sub", s, lo, hi)
		e.Ctx.Assume(st.PC, Eq(app(SInt, "bytes_len", r), Sub(hi, lo)))
		return r
	case strings.HasPrefix(s.Sort, "Sl_"):
		ln := e.S.SlLen(s)
		hi = ln
		if x.High != nil {
			hi = e.eval(st, x.High)
		}
		// capacity is not modelled: slicing beyond len (up to cap) is reported as unsafe
		e.safe(st, "slice", x, And(Le(Int(0), lo), Le(lo, hi), Le(hi, ln)))
		es := e.S.sliceElem(s.Sort)
		if lo.S == "0" {
			return e.S.MkSlice(s.Sort, e.S.SlArr(s), hi, e.S.SlNil(s))
		}
		// shifted view: fresh array with a[i] = old[i+lo]
		na := e.Ctx.Fresh("slarr", ArraySort(SInt, es))
		e.Ctx.Assume(st.PC, Term{fmt.Sprintf("(forall ((i Int)) (! (= (select %s i) (select %s (+ i %s))) :pattern ((select %s i))))", na.S, e.S.SlArr(s).S, lo.S, na.S), SBool})
		return e.S.MkSlice(s.Sort, na, e.Ctx.Define("sllen", Sub(hi, lo)), False)
	}
	e.unsupported(x.Pos(), "slice expression on %s", s.Sort)
	return s
}

func (e *Exec) evalCompositeLit(st *State, x *ast.CompositeLit, addr bool) Term {
	t := e.typeOf(x)
	switch u := t.Underlying().(type) {
	case *types.Struct:
		srt := e.S.SortOf(t)
		si := e.S.StructInfo(srt)
		vals := make([]Term, len(si.fields))
		for i := range vals {
			vals[i] = e.S.Zero(si.fsorts[i])
		}
		for i, el := range x.Elts {
			if kv, ok := el.(*ast.KeyValueExpr); ok {
				name := kv.Key.(*ast.Ident).Name
				for j, f := range si.fields {
					if f == name {
						vals[j] = e.evalTo(st, kv.Value, u.Field(j).Type())
					}
				}
			} else {
				vals[i] = e.evalTo(st, el, u.Field(i).Type())
			}
		}
		v := app(srt, si.ctor, vals...)
		if addr {
			ref := e.allocRef(st, shortTypeName(t))
			e.storeStruct(st, ref, t, v)
			e.declDyn()
			e.Ctx.Assume(st.PC, Eq(app(SInt, "dyntype", ref), Int(int64(e.dynID(types.NewPointer(t))))))
			return ref
		}
		return v
	case *types.Slice:
		if isByteSlice(t) {
			if len(x.Elts) == 0 {
				return Term{"bytes_empty", SBytes}
			}
			b := e.Ctx.Fresh("byteslit", SBytes)
			e.Ctx.Assume(st.PC, Eq(app(SInt, "bytes_len", b), Int(int64(len(x.Elts)))))
			for i, el := range x.Elts {
				e.Ctx.Assume(st.PC, Eq(app(SInt, "bytes_at", b, Int(int64(i))), e.eval(st, el)))
			}
			return b
		}
		srt := e.S.SortOf(t)
		es := e.S.sliceElem(srt)
		arr := e.S.ConstArray(SInt, es, e.S.Zero(es))
		for i, el := range x.Elts {
			if _, ok := el.(*ast.KeyValueExpr); ok {
				e.unsupported(el.Pos(), "keyed slice literal")
				continue
			}
			var v Term
			if cl, ok := el.(*ast.CompositeLit); ok && cl.Type == nil {
				v = e.evalCompositeLit(st, cl, isPointer(u.Elem()))
			} else {
				v = e.evalTo(st, el, u.Elem())
			}
			arr = Store(arr, Int(int64(i)), v)
		}
		return e.S.MkSlice(srt, arr, Int(int64(len(x.Elts))), False)
	case *types.Map:
		ref := e.newMap(st, u)
		for _, el := range x.Elts {
			kv := el.(*ast.KeyValueExpr)
			k := e.evalTo(st, kv.Key, u.Key())
			v := e.evalTo(st, kv.Value, u.Elem())
			e.mapSet(st, x, ref, k, v, u)
		}
		return ref
	case *types.Pointer:
		// elided &T in a slice/map literal element
		inner := *x
		return e.evalCompositeLitTyped(st, &inner, u.Elem(), true)
	}
	e.unsupported(x.Pos(), "composite literal of %s", t)
	return Int(0)
}

func (e *Exec) evalCompositeLitTyped(st *State, x *ast.CompositeLit, t types.Type, addr bool) Term {
	e.unsupported(x.Pos(), "elided composite literal type")
	return Int(0)
}

func isPointer(t types.Type) bool {
	_, ok := t.Underlying().(*types.Pointer)
	return ok
}


const floatModelNote = "float64 values are modelled by exact real numbers"

func (e *Exec) noteFloatModel() {
	if e.Fn != nil && e.Fn.C != nil && e.Fn.C.FloatBV {
		e.Assumed[floatModelNote+" in "+e.fnName()+"; justified for its math.Ceil(float64(n)/k) by the float/range and float/ieee-ceil-div obligations (the IEEE-754 one is decided in the thorough tier only)"] = true
		return
	}
	e.Assumed[floatModelNote+" in "+e.fnName()+" (IEEE-754 rounding not modelled)"] = true
}
