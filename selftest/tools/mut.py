import subprocess,sys,re
def run(name, path, old, new, funcs, expect, props):
    s=open(path).read()
    assert old in s, name
    open(path,'w').write(s.replace(old,new,1))
    r=subprocess.run(['/verif/bin/govc','dev']+funcs.split(),capture_output=True,text=True)
    fails=[l.split()[-2] for l in r.stdout.splitlines() if l.strip().startswith('FAIL')]
    unsup=[l for l in r.stdout.splitlines() if 'UNSUPPORTED' in l or 'load error' in l]
    hit=any(re.search(expect,f) for f in fails)
    print(name, 'DETECTED' if hit else 'MISSED', fails[:4], unsup[:2])
    if hit:
        subprocess.run(['/verif/selftest/mk.sh',name,expect,funcs,props],capture_output=True)
    else:
        subprocess.run(['git','checkout','--',path])
    subprocess.run(['git','checkout','--',path])
