package main

import (
	"bufio"
	"encoding/json"
	"fmt"
	"os"
	"path/filepath"
	"regexp"
	"sort"
	"strconv"
	"strings"
	"time"

	"govc/vc"
)

const verifRoot = "/verif"

// PropSpec: which functions / obligations carry a property (spec/properties.map.json).
type PropEntry struct {
	Func    string   `json:"func"`              // "pkg.Type.Method" or "pkg.Func"
	Include []string `json:"include,omitempty"` // regexes on the obligation suffix after "<func>/"; default: all
	Exclude []string `json:"exclude,omitempty"`
	MinObl  int      `json:"min_obligations,omitempty"` // contract-derived obligations expected at least
	Role    string   `json:"role,omitempty"`
}

type PropSpec struct {
	Title     string      `json:"title"`
	Entries   []PropEntry `json:"entries"`
	NotProved []string    `json:"not_machine_checked,omitempty"`
	Bounded   []string    `json:"bounded,omitempty"`
}

type Finding struct {
	ID         string `json:"id"`
	Property   string `json:"property"`
	Obligation string `json:"obligation"` // exact obligation name
	Status     string `json:"status"`     // open | fixed
	Commit     string `json:"commit,omitempty"`
	WhatFails  string      `json:"what_fails"`
	Replay     *ReplaySpec `json:"replay,omitempty"`
}

func loadFindings() []Finding {
	var out []Finding
	f, err := os.Open(filepath.Join(verifRoot, "known_findings.jsonl"))
	if err != nil {
		return nil
	}
	defer f.Close()
	sc := bufio.NewScanner(f)
	sc.Buffer(make([]byte, 1<<20), 1<<20)
	for sc.Scan() {
		line := strings.TrimSpace(sc.Text())
		if line == "" || strings.HasPrefix(line, "#") {
			continue
		}
		var fd Finding
		if err := json.Unmarshal([]byte(line), &fd); err == nil {
			out = append(out, fd)
		}
	}
	return out
}

type obRecord struct {
	Name    string  `json:"name"`
	Kind    string  `json:"kind"`
	Status  string  `json:"status"`
	Solver  string  `json:"solver,omitempty"`
	Seconds float64 `json:"seconds"`
	Bytes   int     `json:"smt_bytes"`
	Pos     string  `json:"at,omitempty"`
}

// reachability canaries of the current run (reported in the evidence)
var canaries, canariesUndecided int

func check(prop, tier string) int {
	t0 := time.Now()
	seed := 0
	if s := os.Getenv("VERIF_SEED"); s != "" {
		seed, _ = strconv.Atoi(s)
	}
	var specs map[string]*PropSpec
	raw, err := os.ReadFile(filepath.Join(verifRoot, "spec", "properties.map.json"))
	if err != nil {
		fmt.Println("cannot read properties.map.json:", err)
		return 2
	}
	if err := json.Unmarshal(raw, &specs); err != nil {
		fmt.Println("bad properties.map.json:", err)
		return 2
	}
	spec := specs[prop]
	if spec == nil {
		fmt.Printf("property %s is not claimed (see MANIFEST.json not_applicable)\n", prop)
		return 2
	}
	timeout := 30
	if tier == "thorough" {
		timeout = 90
	}
	replayDir := filepath.Join(verifRoot, "replays", prop)
	os.MkdirAll(replayDir, 0o755)
	smtDir, _ := os.MkdirTemp("", "govc-smt-")
	if d := os.Getenv("GOVC_SMTDIR"); d != "" {
		// development aid: keep the generated SMT files
		os.MkdirAll(d, 0o755)
		smtDir = d
	} else {
		defer os.RemoveAll(smtDir)
	}

	violations := 0
	replayTries := 0 // generic replays attempted for obligations without a model (bounded: each costs a solver run)
	var curReplay *ReplaySpec
	var curGeneric *vc.GenericTest
	violate := func(obName, reason, body string, found bool) {
		violations++
		path := filepath.Join(replayDir, sanitizeFile(obName+"."+reason)+".json")
		rec := map[string]interface{}{"property": prop, "obligation": obName, "reason": reason, "solver_output": body, "failing_input_found": found}
		if curReplay != nil {
			rec["replay"] = curReplay
		}
		if curGeneric != nil {
			rec["generic_replay"] = curGeneric
		}
		b, _ := json.MarshalIndent(rec, "", " ")
		os.WriteFile(path, b, 0o644)
		suffix := ""
		if !found {
			suffix = " no-failing-input-found"
		}
		fmt.Printf("VIOLATION property=%s replay=%s obligation=%s reason=%s%s\n", prop, path, obName, reason, suffix)
	}

	prog, err := vc.Load(repoRoot(), vc.DefaultPatterns)
	if err != nil {
		// the tree does not load (compile error, or a contract no longer matches): fail closed
		writeEvidence(prop, tier, seed, time.Since(t0).Seconds(), nil, 0, 0, nil, nil, nil, 1, spec, nil)
		violate("load", "load-error", err.Error(), false)
		return 1
	}
	findings := loadFindings()
	type job struct {
		entry PropEntry
		fr    *vc.FuncResult
		obs   []*vc.Obligation
	}
	var jobs []job
	var all []*vc.Obligation
	assumed := map[string]bool{}
	var funcs []string
	dropped := map[string]int{}
	for _, en := range spec.Entries {
		fi := prog.Lookup(en.Func)
		if fi == nil || fi.C == nil {
			violate(en.Func, "hint-mismatch", "function "+en.Func+" named by the property map has no contract or no longer exists", false)
			continue
		}
		fr := prog.VerifyFuncRebinding(fi, func(obs []*vc.Obligation) int {
			nfail := 0
			for _, r := range vc.SolveAll(obs, smtDir, timeout, 14) {
				if r.Ob.MustFail || r.Ob.Kind == "aux" {
					continue
				}
				if r.Status != "unsat" {
					nfail++
				}
			}
			return nfail
		})
		if fr.Opaque {
			assumed["assumed contract (body not verified): "+fr.Func+" — "+fr.Trusted] = true
			continue
		}
		funcs = append(funcs, fr.Func)
		for _, a := range fr.Assumed {
			assumed[a] = true
		}
		for k, v := range fr.Dropped {
			dropped[k] += v
		}
		if len(fr.Unsupported) > 0 {
			violate(fr.Func, "unsupported-or-hint-mismatch", strings.Join(fr.Unsupported, "\n"), false)
		}
		var sel []*vc.Obligation
		nContract := 0
		// entries that select safety obligations explicitly (C08) count them; elsewhere only contract clauses count
		wantsSafe := false
		for _, inc := range en.Include {
			if strings.HasPrefix(inc, "safe") {
				wantsSafe = true
			}
		}
		for _, o := range fr.Obligations {
			suffix := strings.TrimPrefix(o.Name, fr.Func+"/")
			if !matchAny(en.Include, suffix, true) || matchAny(en.Exclude, suffix, false) {
				if o.Kind != "vacuity" {
					continue
				}
			}
			if o.ThoroughOnly && tier != "thorough" {
				assumed["not checked in the quick tier (needs about a minute of cvc5; run the thorough tier): "+o.Name] = true
				continue
			}
			sel = append(sel, o)
			if o.Kind != "vacuity" && o.Kind != "aux" && (o.Kind != "safe" || wantsSafe) {
				nContract++
			}
		}
		if en.MinObl > 0 && nContract < en.MinObl {
			violate(fr.Func, "vacuity", fmt.Sprintf("only %d contract-derived obligations generated, expected at least %d", nContract, en.MinObl), false)
		}
		jobs = append(jobs, job{en, fr, sel})
		all = append(all, sel...)
	}
	workers := 14
	startLoad := 0.0 // 1-minute load average before this check starts solving (its own solvers are not in it yet)
	if b, err := os.ReadFile("/proc/loadavg"); err == nil {
		fmt.Sscanf(string(b), "%f", &startLoad)
		if startLoad > 24 {
			workers = 4 // the machine is busy (other checks running side by side): fewer solver races at once
		}
	}
	// the obligation of a listed open finding is expected to fail: it gets a short budget (enough to notice that it
	// passes, should the defect have been repaired) instead of holding up the run
	isKnownOpen := func(name string) bool {
		for k := range findings {
			if findings[k].Obligation == name && findings[k].Status == "open" && findings[k].Property == prop {
				return true
			}
		}
		return false
	}
	var knownIdx, restIdx []int
	for i, o := range all {
		if isKnownOpen(o.Name) {
			knownIdx = append(knownIdx, i)
		} else {
			restIdx = append(restIdx, i)
		}
	}
	results := make([]*vc.Result, len(all))
	{
		var rest, known []*vc.Obligation
		for _, i := range restIdx {
			rest = append(rest, all[i])
		}
		for _, i := range knownIdx {
			known = append(known, all[i])
		}
		shortT := timeout
		if shortT > 12 {
			shortT = 12
		}
		kch := make(chan []*vc.Result, 1)
		go func() { kch <- vc.SolveAll(known, smtDir, shortT, 2) }()
		rr := vc.SolveAll(rest, smtDir, timeout, workers)
		kr := <-kch
		for k, i := range restIdx {
			results[i] = rr[k]
		}
		for k, i := range knownIdx {
			results[i] = kr[k]
		}
	}
	// An obligation that ran out of time while everything was being solved at once (and possibly while other checks
	// were running on the same machine) is tried again on its own, two at a time, with twice the budget, before it
	// is reported: a timeout under load is not a verdict.
	{
		var again []int
		for i, r := range results {
			if r.Ob.MustFail || r.Ob.Kind == "aux" {
				continue
			}
			if r.Status == "timeout" || r.Status == "unknown" {
				known := false
				for k := range findings {
					if findings[k].Obligation == r.Ob.Name && findings[k].Status == "open" && findings[k].Property == prop {
						known = true // the obligation of a listed open finding is expected to fail: no second attempt
					}
				}
				if !known {
					again = append(again, i)
				}
			}
		}
		busy := startLoad > 8
		// the load may have risen after this check started (several checks started at the same moment on an idle
		// machine): look again now - at this point this check's own solvers have finished
		if b, err := os.ReadFile("/proc/loadavg"); err == nil {
			nowLoad := 0.0
			fmt.Sscanf(string(b), "%f", &nowLoad)
			if nowLoad > 8 {
				busy = true
			}
		}
		// only when the machine is busy: on an idle machine a timeout is what it says
		if busy && len(again) > 0 && len(again) <= 12 {
			var obs []*vc.Obligation
			for _, i := range again {
				obs = append(obs, results[i].Ob)
			}
			second := vc.SolveAll(obs, smtDir, 2*timeout, 2)
			for k, i := range again {
				if k < len(second) && second[k] != nil && second[k].Ob == results[i].Ob {
					second[k].Seconds += results[i].Seconds
					results[i] = second[k]
				}
			}
		}
	}
	var recs []obRecord
	canaries, canariesUndecided = 0, 0
	nObl, nDis := 0, 0
	var solverTime float64
	bySolver := map[string]int{}
	knownSeen := []string{}
	knownObl := []string{}
	auxFailed := []string{}
	for _, r := range results {
		o := r.Ob
		rec := obRecord{Name: o.Name, Kind: o.Kind, Status: r.Status, Solver: r.Solver, Seconds: round3(r.Seconds), Bytes: r.SMTBytes, Pos: o.Pos}
		recs = append(recs, rec)
		solverTime += r.Seconds
		if o.MustFail {
			canaries++
			if r.Status == "unsat" {
				violate(o.Name, "vacuity", "the point is unreachable under the contract's assumptions (everything after it is vacuously true)", false)
			} else if r.Status != "sat" {
				canariesUndecided++
			}
			continue
		}
		if o.Kind == "aux" {
			if r.Status != "unsat" {
				auxFailed = append(auxFailed, o.Name)
			}
			continue
		}
		nObl++
		if r.Status == "unsat" {
			nDis++
			bySolver[r.Solver]++
			continue
		}
		// failed obligation: known finding?
		var kf *Finding
		for i := range findings {
			if findings[i].Obligation == o.Name && findings[i].Status == "open" && findings[i].Property == prop {
				kf = &findings[i]
			}
		}
		if kf != nil {
			fmt.Printf("KNOWN-FINDING: property=%s %s (obligation %s)\n", prop, kf.WhatFails, o.Name)
			knownSeen = append(knownSeen, kf.ID)
			// the obligation of a listed open finding is reported by that line and under known_finding_obligations;
			// it is not part of what this run claims to have proved
			nObl--
			knownObl = append(knownObl, o.Name)
			continue
		}
		body := r.Status + " " + r.Solver + "\n" + r.Detail + "\n" + trimModel(r.Model)
		found := false
		for i := range findings {
			if findings[i].Obligation == o.Name && findings[i].Replay != nil {
				// a finding recorded as fixed fails again: replay its input
				if rep, out, err := runReplay(*findings[i].Replay); err == nil && rep {
					found = true
					body += "\n--- replay ---\n" + out
				}
				curReplay = findings[i].Replay
			}
		}
		if !found && (r.Status == "sat" || replayTries < 3) {
			replayTries++
			// generic replay: the model's inputs on the real code
			if ok, rep := o.TryReplay(repoRoot()); rep != "" {
				body += "\n" + rep
				found = ok
				curGeneric = o.GenericTest
			}
		}
		violate(o.Name, "obligation-"+r.Status, body, found)
		curReplay = nil
		curGeneric = nil
	}
	// replays of every listed finding of this property: an open one is expected to reproduce, a fixed one
	// must not reproduce (if it does, the violation is back — reported with its concrete input).
	replayLog := []map[string]interface{}{}
	failedNames := map[string]bool{}
	for _, r := range results {
		if !r.Ob.MustFail && r.Ob.Kind != "aux" && r.Status != "unsat" {
			failedNames[r.Ob.Name] = true
		}
	}
	for i := range findings {
		fd := &findings[i]
		if fd.Property != prop || fd.Replay == nil {
			continue
		}
		rep, out, err := runReplay(*fd.Replay)
		entry := map[string]interface{}{"finding": fd.ID, "status": fd.Status, "reproduced": rep}
		if err != nil {
			entry["error"] = err.Error()
		}
		replayLog = append(replayLog, entry)
		if err != nil {
			curReplay = fd.Replay
			violate(fd.Obligation, "replay-error", err.Error()+"\n"+out, false)
			curReplay = nil
			continue
		}
		if fd.Status == "fixed" && rep {
			curReplay = fd.Replay
			violate(fd.Obligation, "fixed-finding-"+fd.ID+"-reproduces-again", out, true)
			curReplay = nil
		}
		if fd.Status == "open" && !rep && !failedNames[fd.Obligation] {
			fmt.Printf("NOTE: open finding %s no longer reproduces and its obligation is discharged; update known_findings.jsonl\n", fd.ID)
		}
	}
	// thorough tier: the property's must-fail canaries on a scratch copy (see canary.go)
	var canaryLog []map[string]interface{}
	var canaryMissed []string
	if tier == "thorough" {
		canaryLog, canaryMissed = runCanaries(prop, 4)
		for _, m := range canaryMissed {
			fmt.Printf("CANARY-NOT-DETECTED property=%s canary=%s (a change known to break the property is no longer reported: the check cannot be trusted)\n", prop, m)
		}
	}
	// open findings whose obligation no longer exists: report (the contract moved)
	writeEvidence(prop, tier, seed, time.Since(t0).Seconds(), recs, nObl, nDis, funcs, assumed, bySolver, violations, spec, map[string]interface{}{
		"solver_seconds": round3(solverTime), "known_findings_seen": knownSeen, "known_finding_obligations": knownObl, "aux_not_proved": auxFailed, "dropped_statements": dropped, "timeout_s": timeout, "finding_replays": replayLog, "must_fail_canaries": canaryLog, "canaries_not_detected": canaryMissed})
	if violations > 0 {
		return 1
	}
	if len(canaryMissed) > 0 {
		return 3
	}
	fmt.Printf("OK property=%s tier=%s obligations=%d discharged=%d functions=%d wall=%.1fs\n", prop, tier, nObl, nDis, len(funcs), time.Since(t0).Seconds())
	return 0
}

func round3(f float64) float64 { return float64(int(f*1000+0.5)) / 1000 }

func trimModel(m string) string {
	if len(m) > 6000 {
		return m[:6000] + "\n…"
	}
	return m
}

func sanitizeFile(s string) string {
	return regexp.MustCompile(`[^A-Za-z0-9_.-]+`).ReplaceAllString(s, "_")
}

func matchAny(pats []string, s string, dflt bool) bool {
	if len(pats) == 0 {
		return dflt
	}
	for _, p := range pats {
		if ok, _ := regexp.MatchString("^(?:"+p+")$", s); ok {
			return true
		}
	}
	return false
}

var trustedBase = []string{
	"govc VC generator and its Go semantics (DESIGN.md §2): forward symbolic execution over go/ast + go/types of /repo's working tree",
	"SMT solvers z3 4.8.12, z3 5.1.0, cvc5 1.0 (first unsat wins)",
	"heap model: one array per struct field / map type / pointer cell type (Burstall–Bornat); slices and []byte have value semantics (aliasing between slice variables not modelled)",
	"single-threaded execution of each function (locks, goroutines, channels not modelled)",
	"extern contracts for library functions (listed under assumptions as 'extern contract: …')",
	"fold-over-a-set equations for __count and the duplicate-free-enumeration rule for __enum",
	"the Store interface is used through its contracts over a ghost view (events, heads, rounds, frames, blocks, peer sets): a read returns the object last written under the key. InmemStore's round/block/frame/event tables are verified against them; for BadgerStore this holds for cache hits, while after eviction it returns an equal copy decoded from the database (database behaviour has no contract)",
}

func writeEvidence(prop, tier string, seed int, wall float64, recs []obRecord, nObl, nDis int, funcs []string, assumed map[string]bool, bySolver map[string]int, violations int, spec *PropSpec, extra map[string]interface{}) {
	var as []string
	for a := range assumed {
		as = append(as, a)
	}
	sort.Strings(as)
	if canariesUndecided > 0 {
		as = append(as, fmt.Sprintf("reachability canaries (vacuity guard): %d of %d were decided reachable, none unreachable, %d undecided within their 2 s budget - for those, non-vacuity of the contract rests on the must-fail corpus (selftest/), which fails a named obligation of the same functions", canaries-canariesUndecided, canaries, canariesUndecided))
	}
	if spec != nil {
		for _, n := range spec.NotProved {
			as = append(as, "not machine-checked: "+n)
		}
	}
	samples := []interface{}{}
	for i, r := range recs {
		if i >= 400 {
			break
		}
		samples = append(samples, r)
	}
	cov := map[string]interface{}{
		"obligations":              nObl,
		"discharged":               nDis,
		"checker_cmd":              fmt.Sprintf("/verif/check %s %s  (govc: go/packages load of /repo with -tags verif, VC generation, z3/z3-new/cvc5 race per obligation)", prop, tier),
		"trusted_base":             trustedBase,
		"functions_under_contract": funcs,
		"discharged_by_solver":     bySolver,
		"samples":                  samples,
		"evaluations":              len(recs),
		"distinct_nontrivial":      nObl,
		"rule":                     "one case = one proof obligation generated from /repo's current source (pre, post, loop invariant, frame, safety, lemma); vacuity canaries and aux lemmas are listed but not counted",
	}
	if spec != nil && len(spec.Bounded) > 0 {
		cov["bounded_checks"] = spec.Bounded
	}
	for k, v := range extra {
		cov[k] = v
	}
	ev := map[string]interface{}{
		"property_id": prop, "tier": tier, "seed": seed, "level": "proof", "coverage": cov, "assumptions": as, "wall_s": round3(wall), "violations": violations,
	}
	os.MkdirAll(filepath.Join(verifRoot, "evidence"), 0o755)
	b, _ := json.MarshalIndent(ev, "", " ")
	os.WriteFile(filepath.Join(verifRoot, "evidence", prop+".json"), b, 0o644)
}
