package main

import (
	"encoding/json"
	"fmt"
	"os"
	"os/exec"
	"path/filepath"
	"strings"
)

// ReplaySpec names an in-package test that demonstrates a finding on the real code.
type ReplaySpec struct {
	Pkg  string `json:"pkg"`  // e.g. ./src/common/
	File string `json:"file"` // relative to /verif, e.g. spec/replay/f3a_common_test.go
	Run  string `json:"run"`  // test name
}

// runReplay injects the test with -overlay (nothing is written to /repo) and reports whether the
// violation reproduced, together with the test output.
func runReplay(rs ReplaySpec) (reproduced bool, output string, err error) {
	src := filepath.Join(verifRoot, rs.File)
	if _, e := os.Stat(src); e != nil {
		return false, "", fmt.Errorf("replay source %s missing", src)
	}
	tmp, e := os.MkdirTemp("", "govc-replay-")
	if e != nil {
		return false, "", e
	}
	defer os.RemoveAll(tmp)
	target := filepath.Join(repoRoot(), rs.Pkg, "zz_verif_replay_"+filepath.Base(rs.File))
	ov := map[string]map[string]string{"Replace": {target: src}}
	b, _ := json.Marshal(ov)
	ovf := filepath.Join(tmp, "ov.json")
	os.WriteFile(ovf, b, 0o644)
	cmd := exec.Command("go", "test", "-overlay", ovf, "-vet=off", "-count=1", "-timeout", "180s", "-run", "^"+rs.Run+"$", rs.Pkg)
	cmd.Dir = repoRoot()
	cmd.Env = append(os.Environ(), "GOFLAGS=-mod=mod", "GOPROXY=off", "GOSUMDB=off", "GOTOOLCHAIN=local")
	out, runErr := cmd.CombinedOutput()
	var keep []string
	for _, l := range strings.Split(string(out), "\n") {
		if strings.Contains(l, "level=") {
			continue
		}
		keep = append(keep, l)
	}
	text := strings.Join(keep, "\n")
	if len(text) > 8000 {
		text = text[len(text)-8000:]
	}
	if strings.Contains(text, "REPRODUCED") {
		return true, text, nil
	}
	if runErr != nil && !strings.Contains(text, "--- FAIL") && !strings.Contains(text, "ok  ") {
		return false, text, fmt.Errorf("replay did not run: %v", runErr)
	}
	if strings.Contains(text, "no tests to run") {
		return false, text, fmt.Errorf("replay test %s not found", rs.Run)
	}
	return false, text, nil
}

func replayCmd(path string) int {
	raw, err := os.ReadFile(path)
	if err != nil {
		fmt.Println(err)
		return 2
	}
	var rec map[string]interface{}
	json.Unmarshal(raw, &rec)
	fmt.Printf("property:   %v\nobligation: %v\nreason:     %v\n", rec["property"], rec["obligation"], rec["reason"])
	if rp, ok := rec["replay"].(map[string]interface{}); ok {
		rs := ReplaySpec{Pkg: fmt.Sprint(rp["pkg"]), File: fmt.Sprint(rp["file"]), Run: fmt.Sprint(rp["run"])}
		rep, out, err := runReplay(rs)
		fmt.Println(out)
		if err != nil {
			fmt.Println("replay error:", err)
			return 2
		}
		if rep {
			fmt.Println("violation reproduced on the real code")
			return 1
		}
		fmt.Println("violation does not reproduce")
		return 0
	}
	if g, ok := rec["generic_replay"].(map[string]interface{}); ok {
		// the test generated from the solver's model: run it again on the current tree
		tmp, err := os.MkdirTemp("", "govc-greplay-")
		if err != nil {
			fmt.Println(err)
			return 2
		}
		defer os.RemoveAll(tmp)
		src := filepath.Join(tmp, "zz_verif_generic_replay_test.go")
		os.WriteFile(src, []byte(fmt.Sprint(g["source"])), 0o644)
		dir := fmt.Sprint(g["pkg_dir"])
		ov := map[string]map[string]string{"Replace": {filepath.Join(dir, "zz_verif_generic_replay_test.go"): src}}
		b, _ := json.Marshal(ov)
		ovf := filepath.Join(tmp, "ov.json")
		os.WriteFile(ovf, b, 0o644)
		cmd := exec.Command("go", "test", "-overlay", ovf, "-vet=off", "-count=1", "-v", "-timeout", "60s", "-run", "^TestVerifGenericReplay$", ".")
		cmd.Dir = dir
		cmd.Env = append(os.Environ(), "GOFLAGS=-mod=mod", "GOPROXY=off", "GOSUMDB=off", "GOTOOLCHAIN=local")
		out, _ := cmd.CombinedOutput()
		fmt.Println(string(out))
		for _, l := range strings.Split(string(out), "\n") {
			if strings.HasPrefix(l, "REPRODUCED: ") {
				fmt.Println("violation reproduced on the real code")
				return 1
			}
		}
		fmt.Println("violation does not reproduce")
		return 0
	}
	fmt.Printf("no executable replay (no failing input found); solver output:\n%v\n", rec["solver_output"])
	return 1
}
