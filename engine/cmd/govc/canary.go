package main

import (
	"encoding/json"
	"fmt"
	"os"
	"os/exec"
	"path/filepath"
	"regexp"
	"sort"
	"strings"
	"sync"

	"govc/vc"
)

// Thorough tier, second part: the must-fail canaries of the property. Each row of /verif/selftest that names the
// property is a small source change known to break it. The change is applied to a scratch copy of /repo's
// working tree (never to /repo), the functions it names are re-verified there, and an obligation matching the
// row's pattern has to fail. A canary that is NOT reported means the check has lost its teeth (a weakened
// contract, a vacuous precondition, an engine regression); the run then fails.

type canaryRow struct {
	Patch      string `json:"patch"`
	Expect     string `json:"expect"`
	Funcs      string `json:"funcs"`
	Properties string `json:"properties"`
	name       string
}

func canaryRows(prop string) []canaryRow {
	files, _ := filepath.Glob(filepath.Join(verifRoot, "selftest", "*.json"))
	sort.Strings(files)
	var out []canaryRow
	for _, f := range files {
		b, err := os.ReadFile(f)
		if err != nil {
			continue
		}
		var r canaryRow
		if json.Unmarshal(b, &r) != nil || r.Expect == "" || r.Expect == "none" || r.Expect == "hint-mismatch" {
			continue
		}
		hit := false
		for _, p := range strings.FieldsFunc(r.Properties, func(c rune) bool { return c == ' ' || c == ',' }) {
			if p == prop {
				hit = true
			}
		}
		if !hit {
			continue
		}
		r.name = strings.TrimSuffix(filepath.Base(f), ".json")
		out = append(out, r)
	}
	return out
}

// runCanaries returns the per-canary log and the names of canaries that were not detected.
func runCanaries(prop string, workers int) ([]map[string]interface{}, []string) {
	rows := canaryRows(prop)
	if len(rows) == 0 {
		return nil, nil
	}
	base, err := os.MkdirTemp("", "govc-canary-")
	if err != nil {
		return []map[string]interface{}{{"error": err.Error()}}, nil
	}
	defer os.RemoveAll(base)
	if workers > len(rows) {
		workers = len(rows)
	}
	type res struct {
		idx int
		rec map[string]interface{}
		bad bool
	}
	jobs := make(chan int)
	results := make([]res, len(rows))
	var wg sync.WaitGroup
	for w := 0; w < workers; w++ {
		wg.Add(1)
		go func(w int) {
			defer wg.Done()
			scratch := filepath.Join(base, fmt.Sprintf("w%d", w))
			os.MkdirAll(scratch, 0o755)
			if out, err := exec.Command("rsync", "-a", "--exclude", ".git", "--exclude", "test_data", repoRoot()+"/", scratch+"/").CombinedOutput(); err != nil {
				for i := range jobs {
					results[i] = res{i, map[string]interface{}{"canary": rows[i].name, "skipped": "scratch copy failed: " + string(out)}, false}
				}
				return
			}
			smt := filepath.Join(base, fmt.Sprintf("smt%d", w))
			os.MkdirAll(smt, 0o755)
			for i := range jobs {
				r := rows[i]
				rec := map[string]interface{}{"canary": r.name, "expect": r.Expect}
				patch := filepath.Join(verifRoot, "selftest", r.Patch)
				if out, err := exec.Command("patch", "-p1", "-s", "-d", scratch, "-i", patch).CombinedOutput(); err != nil {
					// the working tree differs from the one the canary was cut for (e.g. it already carries a change)
					exec.Command("patch", "-R", "-p1", "-s", "-f", "-d", scratch, "-i", patch).Run()
					exec.Command("rsync", "-a", "--delete", "--exclude", ".git", "--exclude", "test_data", repoRoot()+"/", scratch+"/").Run()
					rec["skipped"] = "patch does not apply to this working tree: " + strings.TrimSpace(string(out))
					results[i] = res{i, rec, false}
					continue
				}
				var failed []string
				loadErr := ""
				if prog, err := vc.Load(scratch, vc.DefaultPatterns); err != nil {
					loadErr = err.Error()
				} else {
					for _, fn := range strings.Fields(r.Funcs) {
						fi := prog.Lookup(fn)
						if fi == nil || fi.C == nil {
							failed = append(failed, fn+"/hint-mismatch")
							continue
						}
						fr := prog.VerifyFuncRebinding(fi, func(obs []*vc.Obligation) int {
			nfail := 0
							for _, sr := range vc.SolveAll(obs, smt, 10, 6) {
								if sr.Ob.MustFail || sr.Ob.Kind == "aux" {
									continue
								}
								if sr.Status != "unsat" {
									nfail++
								}
							}
							return nfail
						})
						for _, u := range fr.Unsupported {
							failed = append(failed, fr.Func+"/unsupported:"+u)
						}
						for _, sr := range vc.SolveAll(fr.Obligations, smt, 10, 6) {
							if sr.Ob.Kind == "aux" {
								continue
							}
							if sr.Ob.MustFail {
								if sr.Status == "unsat" {
									failed = append(failed, sr.Ob.Name)
								}
							} else if sr.Status != "unsat" {
								failed = append(failed, sr.Ob.Name)
							}
						}
					}
				}
				exec.Command("patch", "-R", "-p1", "-s", "-d", scratch, "-i", patch).Run()
				detected := false
				re, rerr := regexp.Compile(r.Expect)
				for _, f := range failed {
					if rerr == nil && re.MatchString(f) {
						detected = true
					}
				}
				if loadErr != "" {
					rec["skipped"] = "scratch copy does not load: " + loadErr
					results[i] = res{i, rec, false}
					continue
				}
				rec["detected"] = detected
				if len(failed) > 4 {
					failed = failed[:4]
				}
				rec["failed_obligations"] = failed
				results[i] = res{i, rec, !detected}
			}
		}(w)
	}
	for i := range rows {
		jobs <- i
	}
	close(jobs)
	wg.Wait()
	var log []map[string]interface{}
	var missed []string
	for _, r := range results {
		log = append(log, r.rec)
		if r.bad {
			missed = append(missed, rows[r.idx].name)
		}
	}
	return log, missed
}
