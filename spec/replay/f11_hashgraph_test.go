package hashgraph

import (
	"fmt"
	"math/rand"
	"testing"

	"github.com/mosaicnetworks/babble/src/peers"
)

// Replay of finding F11 (C03): the same 89 events of 4 creators, inserted in the same order, give OPPOSITE fame for one
// witness (and then different blocks) depending on whether the consensus methods run after every insertion or once
// after all insertions. Cause: updateAncestorFirstDescendant stops walking down an ancestor chain at a witness only
// if witness() can be computed at that moment, which it cannot before the ancestors' rounds have been divided; the
// first-descendant coordinates, hence stronglySee, hence the votes in DecideFame, depend on the batching.
type f11Out struct {
	round, lt, rr map[string]int
	wit           map[string]bool
	fame          map[string]string
	blocks        []string
}

func f11Clone(e *Event) *Event {
	ne := NewEvent(e.Body.Transactions, e.Body.InternalTransactions, e.Body.BlockSignatures, e.Body.Parents, e.Body.Creator, e.Body.Index)
	ne.Body.Timestamp = e.Body.Timestamp
	ne.Signature = e.Signature
	return ne
}

func f11Run(t *testing.T, evs []*Event, ps *peers.PeerSet, perEvent bool) f11Out {
	store := NewInmemStore(100000)
	blocks := []string{}
	h := NewHashgraph(store, func(b *Block) error {
		hash, _ := b.Body.Hash()
		blocks = append(blocks, fmt.Sprintf("%d:%d:%x", b.Index(), b.RoundReceived(), hash[:6]))
		return nil
	}, testLogger(t))
	if err := h.Init(ps); err != nil {
		t.Fatal(err)
	}
	for i, e := range evs {
		ev := f11Clone(e)
		if perEvent {
			if err := h.InsertEventAndRunConsensus(ev, true); err != nil {
				t.Fatalf("insert %d: %v", i, err)
			}
		} else {
			if err := h.InsertEvent(ev, true); err != nil {
				t.Fatalf("insert %d: %v", i, err)
			}
		}
	}
	if true {
		for k := 0; k < 12; k++ {
			h.DivideRounds()
			h.DecideFame()
			h.DecideRoundReceived()
			h.ProcessDecidedRounds()
		}
	}
	out := f11Out{round: map[string]int{}, lt: map[string]int{}, rr: map[string]int{}, wit: map[string]bool{}, fame: map[string]string{}, blocks: blocks}
	for _, e := range evs {
		x := e.Hex()
		r, _ := h.round(x)
		w, _ := h.witness(x)
		l, _ := h.lamportTimestamp(x)
		rr, _ := h.roundReceived(x)
		out.round[x], out.wit[x], out.lt[x], out.rr[x] = r, w, l, rr
	}
	for r := 0; r <= store.LastRound(); r++ {
		ri, err := store.GetRound(r)
		if err != nil {
			continue
		}
		for x, re := range ri.CreatedEvents {
			if re.Witness {
				out.fame[x] = re.Famous.String()
			}
		}
	}
	return out
}

func f11DAG(n, steps int, rng *rand.Rand) ([]*Event, *peers.PeerSet) {
	nodes, index, ordered, ps := initHashgraphNodes(n)
	heads := make([]string, n)
	idx := make([]int, n)
	for i := 0; i < n; i++ {
		name := fmt.Sprintf("e%d.0", i)
		ev := NewEvent([][]byte{[]byte(name)}, nil, nil, []string{"", ""}, nodes[i].PubBytes, 0)
		nodes[i].signAndAddEvent(ev, name, index, ordered)
		heads[i] = name
	}
	for s := 0; s < steps; s++ {
		to := rng.Intn(n)
		from := rng.Intn(n)
		if from == to {
			continue
		}
		// bias: some nodes are slow
		if to == n-1 && rng.Intn(4) != 0 {
			continue
		}
		idx[to]++
		name := fmt.Sprintf("e%d.%d", to, idx[to])
		ev := NewEvent([][]byte{[]byte(name)}, nil, nil, []string{index[heads[to]], index[heads[from]]}, nodes[to].PubBytes, idx[to])
		nodes[to].signAndAddEvent(ev, name, index, ordered)
		heads[to] = name
	}
	return *ordered, ps
}

// topoShuffle returns another linear extension of the DAG order (parents before children).
func TestVerifReplayF11(t *testing.T) {
	rng := rand.New(rand.NewSource(300))
	evs, ps := f11DAG(4, 60+rng.Intn(120), rng)
	batch := f11Run(t, evs, ps, false)
	perEvent := f11Run(t, evs, ps, true)
	for x, f := range batch.fame {
		if g, ok := perEvent.fame[x]; ok && f != g && f != "Undefined" && g != "Undefined" {
			t.Errorf("REPRODUCED F11: witness %s.. of round %d is famous=%s when consensus runs once at the end and famous=%s when it runs after every insertion (%d events, same insertion order)", x[:10], batch.round[x], f, g, len(evs))
		}
	}
	m := len(batch.blocks)
	if len(perEvent.blocks) < m {
		m = len(perEvent.blocks)
	}
	for i := 0; i < m; i++ {
		if batch.blocks[i] != perEvent.blocks[i] {
			t.Errorf("REPRODUCED F11: block %d differs: %s (batch) vs %s (per-event)", i, batch.blocks[i], perEvent.blocks[i])
			break
		}
	}
	_ = peers.NewPeerSet
	_ = fmt.Sprint
}
