package vc

import (
	"os"
	"fmt"
	"go/types"
	"sort"
	"strings"
)

// State is one symbolic program state (all paths reaching a point, merged).
type State struct {
	PC    Term
	Vars  map[types.Object]Term
	Heap  map[string]Term // heap key -> current array (absent = initial constant, or unknown if HavocAll)
	Alloc Term
	// HavocAll: an unresolved call or loop may have written every heap key; keys absent from Heap are unknown.
	HavocAll bool
	// HavocID names the unknown heap of a HavocAll state: every clone of the state sees the same unknown value for a
	// key that was not written since.
	HavocID int
	// Unknown: keys havocked before their sort was known to this run (value: id naming the unknown value).
	Unknown map[string]int
}

func (s *State) Clone() *State {
	n := &State{PC: s.PC, Alloc: s.Alloc, Vars: make(map[types.Object]Term, len(s.Vars)), Heap: make(map[string]Term, len(s.Heap)), HavocAll: s.HavocAll, HavocID: s.HavocID}
	if len(s.Unknown) > 0 {
		n.Unknown = map[string]int{}
		for k, v := range s.Unknown {
			n.Unknown[k] = v
		}
	}
	for k, v := range s.Vars {
		n.Vars[k] = v
	}
	for k, v := range s.Heap {
		n.Heap[k] = v
	}
	return n
}

func (s *State) Dead() bool { return s == nil || s.PC.S == "false" }

// heapKey descriptors. The sort of each key is recorded in Exec.keySort.
func (e *Exec) heapGet(st *State, key string) Term {
	if t, ok := st.Heap[key]; ok {
		return t
	}
	srt, ok := e.keySort[key]
	if !ok {
		panic("heapGet: unknown key " + key)
	}
	if id := st.Unknown[key]; id != 0 || st.HavocAll {
		if id == 0 {
			id = st.HavocID
		}
		if id == 0 {
			t := e.Ctx.Fresh("hu", srt)
			st.Heap[key] = t
			return t
		}
		name := fmt.Sprintf("hu%d_%s", id, mangle(key))
		e.Ctx.DeclareConst(name, srt)
		t := Term{name, srt}
		st.Heap[key] = t
		return t
	}
	name := "H0_" + mangle(key)
	e.Ctx.DeclareConst(name, srt)
	return Term{name, srt}
}

func (e *Exec) heapSet(st *State, key string, t Term) {
	st.Heap[key] = t
	e.touched[key] = true
}

func (e *Exec) regKey(key, srt string) string {
	if old, ok := e.keySort[key]; ok && old != srt {
		panic(fmt.Sprintf("heap key %s registered with sorts %s and %s", key, old, srt))
	}
	e.keySort[key] = srt
	return key
}

// fieldKey returns the heap key for field f of the (named or anonymous) struct type owner.
func fieldName(su *types.Struct, i int) string {
	if su.Field(i).Name() == "_" {
		return fmt.Sprintf("_blank%d", i)
	}
	return su.Field(i).Name()
}

func (e *Exec) fieldKey(owner types.Type, f *types.Var) string {
	name := shortTypeName(owner)
	if name == "" {
		name = mangle(types.TypeString(owner, nil))
	}
	return e.regKey("F:"+name+"."+f.Name(), ArraySort(SInt, e.S.SortOf(f.Type())))
}

func (e *Exec) ptrKey(elem types.Type) string {
	return e.regKey("P:"+mangle(types.TypeString(elem, nil)), ArraySort(SInt, e.S.SortOf(elem)))
}

func (e *Exec) ghostKey(pkg, name string, t types.Type) string {
	return e.regKey("G:"+shortPkg(pkg)+"."+name, ArraySort(SInt, e.S.SortOf(t)))
}

type mapKeys struct{ dom, val, ln string }

func (e *Exec) mapKey(mt *types.Map) mapKeys {
	ts := mangle(types.TypeString(mt, nil))
	ks := e.S.SortOf(mt.Key())
	vs := e.S.SortOf(mt.Elem())
	return mapKeys{
		dom: e.regKey("MD:"+ts, ArraySort(SInt, ArraySort(ks, SBool))),
		val: e.regKey("MV:"+ts, ArraySort(SInt, ArraySort(ks, vs))),
		ln:  e.regKey("ML:"+ts, ArraySort(SInt, SInt)),
	}
}

// alloc returns a fresh reference.
func (e *Exec) allocRef(st *State, hint string) Term {
	r := e.Ctx.Fresh("ref_"+hint, SInt)
	e.Ctx.Assume(st.PC, Gt(r, st.Alloc))
	na := e.Ctx.Fresh("alloc", SInt)
	e.Ctx.Assume(st.PC, Ge(na, r))
	st.Alloc = na
	return r
}

// structFields lists the fields of struct type t.
func structOf(t types.Type) *types.Struct {
	if p, ok := t.Underlying().(*types.Pointer); ok {
		t = p.Elem()
	}
	s, _ := t.Underlying().(*types.Struct)
	return s
}

// loadStruct builds the datatype value of the struct stored at ref.
func (e *Exec) loadStruct(st *State, ref Term, t types.Type) Term {
	su := structOf(t)
	srt := e.S.SortOf(t)
	si := e.S.StructInfo(srt)
	var args []Term
	for i := 0; i < su.NumFields(); i++ {
		k := e.fieldKey(t, su.Field(i))
		if pred := e.P.Memo[k]; pred != nil && e.spec == 0 && e.memoBusy == 0 {
			e.Ctx.Assume(st.PC, e.memoPred(st, pred, ref))
		}
		args = append(args, Select(e.heapGet(st, k), ref))
	}
	if su.NumFields() == 0 {
		args = append(args, Int(0))
	}
	return app(srt, si.ctor, args...)
}

// storeStructRaw stores a struct value that already lives somewhere (copy-in of an addressable value): its
// memo cells are assumed, not checked.
func (e *Exec) storeStructRaw(st *State, ref Term, t types.Type, val Term) {
	su := structOf(t)
	for i := 0; i < su.NumFields(); i++ {
		k := e.fieldKey(t, su.Field(i))
		e.heapSet(st, k, Store(e.heapGet(st, k), ref, e.S.Field(val, fieldName(su, i))))
	}
	for i := 0; i < su.NumFields(); i++ {
		if pred := e.P.Memo[e.fieldKey(t, su.Field(i))]; pred != nil && e.memoBusy == 0 {
			e.Ctx.Assume(st.PC, e.memoPred(st, pred, ref))
		}
	}
}

// keepMemo returns val with its memo fields replaced by those of orig.
func (e *Exec) keepMemo(t types.Type, val, orig Term) Term {
	su := structOf(t)
	for i := 0; i < su.NumFields(); i++ {
		if e.P.Memo[e.fieldKey(t, su.Field(i))] != nil {
			val = e.S.WithField(val, su.Field(i).Name(), e.S.Field(orig, su.Field(i).Name()))
		}
	}
	return val
}

func (e *Exec) storeStruct(st *State, ref Term, t types.Type, val Term) {
	su := structOf(t)
	var memos []string
	for i := 0; i < su.NumFields(); i++ {
		k := e.fieldKey(t, su.Field(i))
		e.heapSet(st, k, Store(e.heapGet(st, k), ref, e.S.Field(val, fieldName(su, i))))
		if e.P.Memo[k] != nil {
			memos = append(memos, k)
		}
	}
	if e.spec == 0 && e.memoBusy == 0 {
		for _, k := range memos {
			e.memoWritten(st, k, e.P.Memo[k], ref)
		}
	}
}

// Merge joins states reached on mutually exclusive paths.
func (e *Exec) Merge(states ...*State) *State {
	var live []*State
	for _, s := range states {
		if !s.Dead() {
			live = append(live, s)
		}
	}
	if len(live) == 0 {
		return nil
	}
	if len(live) == 1 {
		return live[0]
	}
	res := live[0]
	for _, s := range live[1:] {
		res = e.merge2(res, s)
	}
	return res
}

func (e *Exec) merge2(a, b *State) *State {
	n := &State{PC: Or(a.PC, b.PC), Vars: map[types.Object]Term{}, Heap: map[string]Term{}, HavocAll: a.HavocAll || b.HavocAll}
	if n.HavocAll {
		if a.HavocAll && b.HavocAll && a.HavocID == b.HavocID {
			n.HavocID = a.HavocID
		} else {
			n.HavocID = e.nextHavocID()
		}
	}
	if len(a.Unknown)+len(b.Unknown) > 0 {
		n.Unknown = map[string]int{}
		for k, v := range a.Unknown {
			n.Unknown[k] = v
		}
		for k, v := range b.Unknown {
			if v0, ok := n.Unknown[k]; ok && v0 != v {
				n.Unknown[k] = e.nextHavocID()
			} else {
				n.Unknown[k] = v
			}
		}
	}
	n.PC = e.definePC(n.PC)
	cond := a.PC
	for k, va := range a.Vars {
		if vb, ok := b.Vars[k]; ok {
			if va.S == vb.S {
				n.Vars[k] = va
			} else {
				n.Vars[k] = e.Ctx.Define("m_"+k.Name(), Ite(cond, va, vb))
			}
		} else if e.armedVar[k] {
			n.Vars[k] = e.Ctx.Define("m_armed", Ite(cond, va, False))
		} else if e.keepVar[k] {
			// declared on one path only (a later scope): unknown on the other path
			n.Vars[k] = e.Ctx.Define("m_"+k.Name(), Ite(cond, va, e.Ctx.Fresh("undef_"+k.Name(), va.Sort)))
		}
	}
	for k, vb := range b.Vars {
		if _, ok := a.Vars[k]; !ok && e.armedVar[k] {
			n.Vars[k] = e.Ctx.Define("m_armed", Ite(cond, False, vb))
		} else if !ok && e.keepVar[k] {
			n.Vars[k] = e.Ctx.Define("m_"+k.Name(), Ite(cond, e.Ctx.Fresh("undef_"+k.Name(), vb.Sort), vb))
		}
	}
	keys := map[string]bool{}
	for k := range a.Heap {
		keys[k] = true
	}
	for k := range b.Heap {
		keys[k] = true
	}
	ks := make([]string, 0, len(keys))
	for k := range keys {
		ks = append(ks, k)
	}
	sort.Strings(ks)
	for _, k := range ks {
		ha, hb := e.heapGet(a, k), e.heapGet(b, k)
		if ha.S == hb.S {
			n.Heap[k] = ha
		} else {
			n.Heap[k] = e.Ctx.Define("mh", Ite(cond, ha, hb))
		}
	}
	if a.Alloc.S == b.Alloc.S {
		n.Alloc = a.Alloc
	} else {
		n.Alloc = e.Ctx.Define("alloc", Ite(cond, a.Alloc, b.Alloc))
	}
	return n
}

// definePC names a long path condition.
func (e *Exec) definePC(pc Term) Term {
	if len(pc.S) < 64 {
		return pc
	}
	if strings.Contains(pc.S, "!q") && !boundClosed(pc.S) {
		return pc
	}
	v := e.Ctx.Fresh("pc", SBool)
	e.Ctx.facts = append(e.Ctx.facts, "(assert (= "+v.S+" "+pc.S+"))")
	return v
}

func (e *Exec) withPC(st *State, c Term) *State {
	n := st.Clone()
	n.PC = e.definePC(And(st.PC, c))
	return n
}

// assume records that c holds on every execution reaching st. The fact is kept out of the path condition
// (which holds branch decisions only) so that quantified contract clauses occur with positive polarity only.
func (e *Exec) assume(st *State, c Term) {
	if c.S == "false" {
		st.PC = False
		return
	}
	if strings.Contains(c.S, "!q") && !boundClosed(Implies(st.PC, c).S) {
		st.PC = e.definePC(And(st.PC, c))
		return
	}
	e.Ctx.Assume(st.PC, c)
}

// intRange returns the bounds of an integer type.
func intRange(t types.Type) (lo, hi string, ok bool) {
	b, isb := t.Underlying().(*types.Basic)
	if !isb || b.Info()&types.IsInteger == 0 {
		return "", "", false
	}
	switch b.Kind() {
	case types.Int, types.Int64, types.UntypedInt:
		return "-9223372036854775808", "9223372036854775807", true
	case types.Int32, types.UntypedRune:
		return "-2147483648", "2147483647", true
	case types.Int16:
		return "-32768", "32767", true
	case types.Int8:
		return "-128", "127", true
	case types.Uint, types.Uint64, types.Uintptr:
		return "0", "18446744073709551615", true
	case types.Uint32:
		return "0", "4294967295", true
	case types.Uint16:
		return "0", "65535", true
	case types.Uint8:
		return "0", "255", true
	}
	return "", "", false
}

// maxLen: lengths are bounded by the address space (2^62 is generous and keeps sums of two lengths in range).
const maxLen = "4611686018427387904"

// typeFact returns the type invariant of a value of Go type t (integer range, non-negative lengths).
func (e *Exec) typeFact(v Term, t types.Type) Term {
	if lo, hi, ok := intRange(t); ok && v.Sort == SInt {
		return And(Ge(v, IntS(lo)), Le(v, IntS(hi)))
	}
	if strings.HasPrefix(v.Sort, "Sl_") {
		return And(Ge(e.S.SlLen(v), Int(0)), Le(e.S.SlLen(v), IntS(maxLen)), Implies(e.S.SlNil(v), Eq(e.S.SlLen(v), Int(0))))
	}
	switch v.Sort {
	case SStr:
		return And(Ge(app(SInt, "str_len", v), Int(0)), Le(app(SInt, "str_len", v), IntS(maxLen)))
	case SBytes:
		return And(Ge(app(SInt, "bytes_len", v), Int(0)), Le(app(SInt, "bytes_len", v), IntS(maxLen)))
	}
	return True
}

// assumeType records the type invariant of v under st's path condition.
func (e *Exec) assumeType(st *State, v Term, t types.Type) {
	f := e.typeFact(v, t)
	if f.S != "true" {
		e.Ctx.Assume(st.PC, f)
	}
	if isHeapRefType(t) && v.Sort == SInt {
		e.Ctx.Assume(st.PC, And(Ge(v, Int(0)), Le(v, st.Alloc)))
	}
	// elements of a slice of references denote existing objects (or nil)
	if sl, ok := t.Underlying().(*types.Slice); ok && isHeapRefType(sl.Elem()) && strings.HasPrefix(v.Sort, "Sl_") && !strings.Contains(v.S, "!q") && os.Getenv("GOVC_NOELEM") == "" {
		if strings.Contains(v.S, "ite") {
			return // merged value: each branch got its own fact when it was loaded
		}
		arr := e.S.SlArr(v)
		key := "elemalloc|" + arr.S
		if !e.Ctx.factSeen[key] {
			e.Ctx.factSeen[key] = true
			e.Ctx.Assume(st.PC, Term{fmt.Sprintf("(forall ((i Int)) (! (=> (and (<= 0 i) (< i %s)) (and (<= 0 (select %s i)) (<= (select %s i) %s))) :pattern ((select %s i))))", e.S.SlLen(v).S, arr.S, arr.S, st.Alloc.S, arr.S), SBool})
		}
	}
}

// isHeapRefType: values are 0 (nil) or allocated references. Interface values are excluded: boxed
// non-pointer values are represented by negative numbers.
func isHeapRefType(t types.Type) bool {
	switch t.Underlying().(type) {
	case *types.Pointer, *types.Map, *types.Chan:
		return true
	}
	return false
}

func isRefType(t types.Type) bool {
	switch t.Underlying().(type) {
	case *types.Pointer, *types.Map, *types.Chan, *types.Signature, *types.Interface:
		return true
	}
	return false
}

func (e *Exec) nextHavocID() int {
	e.havocSeq++
	return e.havocSeq
}
