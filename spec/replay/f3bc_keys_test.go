package keys

import (
	"math/big"
	"testing"
)

// Replay of finding F3b: DecodeSignature returns nil big.Ints together with a nil error.
func TestVerifReplayF3b(t *testing.T) {
	r, s, err := DecodeSignature("!|!")
	if err == nil && (r == nil || s == nil) {
		t.Errorf("REPRODUCED F3b: DecodeSignature(\"!|!\") = (%v, %v, nil)", r, s)
	}
}

// Replay of finding F3c: Verify dereferences nil keys / coordinates / signature integers.
func TestVerifReplayF3c(t *testing.T) {
	try := func(name string, f func()) {
		defer func() {
			if r := recover(); r != nil {
				t.Errorf("REPRODUCED F3c: %s panicked: %v", name, r)
			}
		}()
		f()
	}
	one := big.NewInt(1)
	priv, _ := GenerateECDSAKey()
	try("Verify(nil key)", func() { Verify(ToPublicKey(nil), []byte("x"), one, one) })
	try("Verify(off-curve key)", func() { Verify(ToPublicKey([]byte{4, 1, 2, 3}), []byte("x"), one, one) })
	try("Verify(nil r, s)", func() { Verify(&priv.PublicKey, []byte("x"), nil, nil) })
}
