package main

import (
	"fmt"
	"os"
	"sort"
	"strings"
	"time"

	"govc/vc"
)

func main() {
	if len(os.Args) < 2 {
		fmt.Println("usage: govc dev <func>... | govc check <prop> <tier>")
		os.Exit(2)
	}
	switch os.Args[1] {
	case "dev":
		dev(os.Args[2:])
	case "list":
		// functions under contract (not trusted): lookup name, file, first and last line of the body
		prog, err := vc.Load(repoRoot(), vc.DefaultPatterns)
		if err != nil {
			fmt.Println(err)
			os.Exit(2)
		}
		for _, fi := range prog.ByKey {
			if fi.C == nil || fi.Decl == nil || fi.Decl.Body == nil || fi.C.Trusted != "" {
				continue
			}
			fs := fi.Pkg.Fset
			fmt.Printf("LIST %s.%s %s %d %d\n", fi.Pkg.Name, fi.Key, fs.Position(fi.Decl.Pos()).Filename, fs.Position(fi.Decl.Body.Lbrace).Line, fs.Position(fi.Decl.Body.Rbrace).Line)
		}
	case "modset":
		prog, err := vc.Load(repoRoot(), vc.DefaultPatterns)
		if err != nil {
			fmt.Println(err)
			os.Exit(2)
		}
		for _, n := range os.Args[2:] {
			fi := prog.Lookup(n)
			if fi == nil {
				fmt.Println("no such function", n)
				continue
			}
			var ks []string
			for k := range prog.ModSet(fi.Obj) {
				ks = append(ks, k)
			}
			sort.Strings(ks)
			fmt.Println(n, len(ks))
			for _, k := range ks {
				fmt.Println("   ", k)
			}
		}
	case "replay":
		os.Exit(replayCmd(os.Args[2]))
	case "check":
		if len(os.Args) < 4 {
			fmt.Println("usage: govc check <prop> quick|thorough")
			os.Exit(2)
		}
		os.Exit(check(os.Args[2], os.Args[3]))
	default:
		fmt.Println("unknown command")
		os.Exit(2)
	}
}

func dev(names []string) {
	t0 := time.Now()
	prog, err := vc.Load(repoRoot(), vc.DefaultPatterns)
	if err != nil {
		fmt.Println("load error:", err)
		os.Exit(2)
	}
	fmt.Printf("loaded in %.1fs\n", time.Since(t0).Seconds())
	var fis []*vc.FuncInfo
	if len(names) == 0 || names[0] == "all" {
		for _, fi := range prog.ByKey {
			if fi.C != nil {
				fis = append(fis, fi)
			}
		}
	} else {
		for _, n := range names {
			fi := prog.Lookup(n)
			if fi == nil {
				fmt.Println("no such function:", n)
				os.Exit(2)
			}
			fis = append(fis, fi)
		}
	}
	sort.Slice(fis, func(i, j int) bool { return fis[i].FullName() < fis[j].FullName() })
	dir := "/tmp/govc-dev"
	if d := os.Getenv("GOVC_DEVDIR"); d != "" {
		dir = d // parallel runs must not share SMT files
	}
	os.MkdirAll(dir, 0o755)
	for _, fi := range fis {
		if fi.C == nil {
			fmt.Println(fi.FullName(), ": no contract")
			continue
		}
		r := prog.VerifyFuncRebinding(fi, func(obs []*vc.Obligation) int {
			nfail := 0
			devT := 20
			if v := os.Getenv("GOVC_DEV_TIMEOUT"); v != "" {
				fmt.Sscanf(v, "%d", &devT)
			}
			for _, sr := range vc.SolveAll(obs, dir, devT, 8) {
				if sr.Ob.MustFail || sr.Ob.Kind == "aux" || sr.Ob.ThoroughOnly {
					continue
				}
				if sr.Status != "unsat" {
					nfail++
				}
			}
			return nfail
		})
		fmt.Printf("== %s (ints %s, safety %v): %d obligations\n", r.Func, r.IntMode, r.Safety, len(r.Obligations))
		for _, u := range r.Unsupported {
			fmt.Println("   UNSUPPORTED:", u)
		}
		obs := r.Obligations
		if os.Getenv("GOVC_THOROUGH") == "" {
			obs = nil
			for _, o := range r.Obligations {
				if o.ThoroughOnly {
					fmt.Printf("   skip (thorough tier only; GOVC_THOROUGH=1 to run)  %s\n", o.Name)
					continue
				}
				obs = append(obs, o)
			}
		}
		showT := 10
		if v := os.Getenv("GOVC_DEV_TIMEOUT"); v != "" {
			fmt.Sscanf(v, "%d", &showT)
		}
		results := vc.SolveAll(obs, dir, showT, 12)
		for _, res := range results {
			ok := res.Status == "unsat"
			if res.Ob.MustFail {
				ok = res.Status == "sat" || res.Status == "unknown" || res.Status == "timeout"
			}
			mark := "ok  "
			if !ok {
				mark = "FAIL"
			}
			fmt.Printf("   %s %-7s %-10s %5.2fs %6dB  %s  [%s]\n", mark, res.Status, res.Solver, res.Seconds, res.SMTBytes, res.Ob.Name, res.Ob.Pos)
			if res.Detail != "" && os.Getenv("GOVC_DETAIL") != "" {
				fmt.Println("        ", res.Detail)
			}
			if !ok && os.Getenv("GOVC_MODEL") != "" {
				fmt.Println(indent(res.Model))
			}
		}
		if os.Getenv("GOVC_ASSUME") != "" {
			for _, a := range r.Assumed {
				fmt.Println("   assume:", a)
			}
		}
	}
}

func repoRoot() string {
	if r := os.Getenv("GOVC_REPO"); r != "" {
		return r
	}
	return "/repo"
}

func indent(s string) string { return "      " + strings.ReplaceAll(s, "\n", "\n      ") }
