package hashgraph

import (
	"strings"
	"testing"

	"github.com/mosaicnetworks/babble/src/crypto/keys"
	"github.com/mosaicnetworks/babble/src/peers"
)

func verifReplayHG(t *testing.T, n int) (*Hashgraph, []*peers.Peer, []interface{}) {
	return nil, nil, nil
}

// Replay of finding F1 (C07, C16): InsertEvent accepted events whose index does not extend the creator's chain.
func TestVerifReplayF1(t *testing.T) {
	key, _ := keys.GenerateECDSAKey()
	pub := keys.FromPublicKey(&key.PublicKey)
	peer := peers.NewPeer(keys.PublicKeyHex(&key.PublicKey), "addr", "p0")
	newHG := func() *Hashgraph {
		h := NewHashgraph(NewInmemStore(100), DummyInternalCommitCallback, nil)
		h.logger.Logger.SetLevel(0)
		if err := h.Init(peers.NewPeerSet([]*peers.Peer{peer})); err != nil {
			t.Fatal(err)
		}
		return h
	}
	// (a) an event with the same index as the creator's head is accepted and overwrites the head's slot
	h := newHG()
	e0 := NewEvent(nil, nil, nil, []string{"", ""}, pub, 0)
	e0.Sign(key)
	if err := h.InsertEvent(e0, true); err != nil {
		t.Fatal(err)
	}
	e1 := NewEvent([][]byte{[]byte("x")}, nil, nil, []string{e0.Hex(), ""}, pub, 0)
	e1.Sign(key)
	if err := h.InsertEvent(e1, true); err == nil {
		t.Errorf("REPRODUCED F1: event with index 0 on top of a head with index 0 was accepted")
	}
	// (b) a first event with index 7 is accepted
	h = newHG()
	e7 := NewEvent(nil, nil, nil, []string{"", ""}, pub, 7)
	e7.Sign(key)
	if err := h.InsertEvent(e7, true); err == nil {
		t.Errorf("REPRODUCED F1: first event with index 7 was accepted")
	}
	// (c) an event that skips an index is refused only after the topological counter was consumed
	h = newHG()
	a := NewEvent(nil, nil, nil, []string{"", ""}, pub, 0)
	a.Sign(key)
	if err := h.InsertEvent(a, true); err != nil {
		t.Fatal(err)
	}
	before := h.topologicalIndex
	b := NewEvent(nil, nil, nil, []string{a.Hex(), ""}, pub, 5)
	b.Sign(key)
	if err := h.InsertEvent(b, true); err != nil && h.topologicalIndex != before {
		t.Errorf("REPRODUCED F1: rejected event consumed topological index %d (hole in the topological listing)", before)
	}
}

// Replay of finding F2 (C12, C19): CheckBlock counted map entries, not validators.
func TestVerifReplayF2(t *testing.T) {
	var ks []interface{}
	var ps []*peers.Peer
	type kp = struct{}
	_ = ks
	privs := make([]*struct{}, 0)
	_ = privs
	var first = -1
	_ = first
	var peerSlice []*peers.Peer
	keysList := make([]interface{}, 0)
	_ = keysList
	k0, _ := keys.GenerateECDSAKey()
	peerSlice = append(peerSlice, peers.NewPeer(keys.PublicKeyHex(&k0.PublicKey), "a0", "p0"))
	for i := 1; i < 4; i++ {
		k, _ := keys.GenerateECDSAKey()
		peerSlice = append(peerSlice, peers.NewPeer(keys.PublicKeyHex(&k.PublicKey), "a", "p"))
	}
	_ = ps
	peerSet := peers.NewPeerSet(peerSlice)
	h := NewHashgraph(NewInmemStore(100), DummyInternalCommitCallback, nil)
	h.logger.Logger.SetLevel(0)
	block := NewBlock(0, 1, []byte("framehash"), peerSlice, [][]byte{[]byte("tx")}, nil, 0)
	sig, err := block.Sign(k0)
	if err != nil {
		t.Fatal(err)
	}
	hexK := sig.ValidatorHex()
	block.Signatures[hexK] = sig.Signature
	block.Signatures["0x"+hexK[2:]] = sig.Signature
	block.Signatures["0X"+strings.ToLower(hexK[2:])] = sig.Signature
	if err := h.CheckBlock(block, peerSet); err == nil {
		t.Errorf("REPRODUCED F2: one validator's signature under three spellings of its key passes CheckBlock for n=4 (trust count %d)", peerSet.TrustCount())
	}
}

// Replay of finding F7 (C08, C09): an undecodable pooled signature made ProcessSigPool return early forever.
func TestVerifReplayF7(t *testing.T) {
	k0, _ := keys.GenerateECDSAKey()
	k1, _ := keys.GenerateECDSAKey()
	peerSlice := []*peers.Peer{
		peers.NewPeer(keys.PublicKeyHex(&k0.PublicKey), "a0", "p0"),
		peers.NewPeer(keys.PublicKeyHex(&k1.PublicKey), "a1", "p1"),
	}
	h := NewHashgraph(NewInmemStore(100), DummyInternalCommitCallback, nil)
	h.logger.Logger.SetLevel(0)
	if err := h.Init(peers.NewPeerSet(peerSlice)); err != nil {
		t.Fatal(err)
	}
	block := NewBlock(0, 0, []byte("framehash"), peerSlice, [][]byte{[]byte("tx")}, nil, 0)
	if err := h.Store.SetBlock(block); err != nil {
		t.Fatal(err)
	}
	h.PendingSignatures.Add(BlockSignature{Validator: keys.FromPublicKey(&k0.PublicKey), Index: 0, Signature: "x"})
	good, _ := block.Sign(k1)
	h.PendingSignatures.Add(good)
	var lastErr error
	for i := 0; i < 5; i++ {
		lastErr = h.ProcessSigPool()
	}
	stored, _ := h.Store.GetBlock(0)
	_, recorded := stored.Signatures[good.ValidatorHex()]
	if lastErr != nil || !recorded || h.PendingSignatures.Len() != 0 {
		t.Errorf("REPRODUCED F7: after 5 calls ProcessSigPool err=%v, valid signature recorded=%v, pool size=%d", lastErr, recorded, h.PendingSignatures.Len())
	}
}
