package vc

import (
	"go/ast"
	"go/token"
	"go/types"
	"strings"
)

// Write-set analysis: for every function of the loaded packages, the set of heap keys it may write on
// objects that existed before the call (transitively through static callees; interface calls take the
// union over the implementations found in the loaded packages; calls through function values are "*").
// Key names must agree with Exec.fieldKey / ptrKey / mapKey.

// keyDesc remembers the Go type behind a heap key so that any run can compute its sort.
type keyDesc struct {
	kind string // field | ptr | map
	t    types.Type
}

var keyDescs = map[string]keyDesc{}

func fieldKeyName(owner types.Type, f *types.Var) string {
	name := shortTypeName(owner)
	if name == "" {
		name = mangle(types.TypeString(owner, nil))
	}
	k := "F:" + name + "." + f.Name()
	if _, ok := keyDescs[k]; !ok {
		keyDescs[k] = keyDesc{"field", f.Type()}
	}
	return k
}

func ptrKeyName(elem types.Type) string {
	k := "P:" + mangle(types.TypeString(elem, nil))
	if _, ok := keyDescs[k]; !ok {
		keyDescs[k] = keyDesc{"ptr", elem}
	}
	return k
}

func mapKeyNames(mt *types.Map) []string {
	ts := mangle(types.TypeString(mt, nil))
	ks := []string{"MD:" + ts, "MV:" + ts, "ML:" + ts}
	for _, k := range ks {
		if _, ok := keyDescs[k]; !ok {
			keyDescs[k] = keyDesc{"map", mt}
		}
	}
	return ks
}

// ensureKeySort registers the sort of a key known to the write-set analysis.
func (e *Exec) ensureKeySort(k string) bool {
	if _, ok := e.keySort[k]; ok {
		return true
	}
	d, ok := keyDescs[k]
	if !ok {
		return false
	}
	switch d.kind {
	case "field":
		e.regKey(k, ArraySort(SInt, e.S.SortOf(d.t)))
	case "ptr":
		e.regKey(k, ArraySort(SInt, e.S.SortOf(d.t)))
	case "map":
		e.mapKey(d.t.(*types.Map))
	}
	_, ok = e.keySort[k]
	return ok
}

type modInfo struct {
	direct  map[string]bool
	callees map[*types.Func]bool
	cbs     map[string]bool // callback fields invoked directly ("Type.field")
	// condWrites: a pointer-receiver method called on an addressable struct value writes that location only if the
	// method writes fields of its receiver type
	condWrites []condWrite
}

type condWrite struct {
	callee *types.Func
	prefix string // "F:<receiver type>."
	keys   map[string]bool
}

func (p *Program) buildModsets() {
	if p.modsets != nil {
		return
	}
	infos := map[*types.Func]*modInfo{}
	for fn, fi := range p.Funcs {
		if fi.Decl.Body == nil {
			continue
		}
		mi := &modInfo{direct: map[string]bool{}, callees: map[*types.Func]bool{}, cbs: map[string]bool{}}
		infos[fn] = mi
		p.scanWrites(fi, fi.Decl.Body, mi)
	}
	// base write-sets: without the writes of registered callback implementations (who writes a key apart from them)
	{
		base := map[*types.Func]map[string]bool{}
		for fn, mi := range infos {
			s := map[string]bool{}
			for k := range mi.direct {
				s[k] = true
			}
			base[fn] = s
		}
		for ch := true; ch; {
			ch = false
			for fn, mi := range infos {
				s := base[fn]
				for cal := range mi.callees {
					for k := range p.calleeSet(cal, base) {
						if !s[k] {
							s[k] = true
							ch = true
						}
					}
				}
				if resolveCondWrites(p, mi, s, base) {
					ch = true
				}
			}
		}
		p.baseModsets = base
	}
	// callback fields a function may invoke (transitively, regardless of declared frames) and their registered
	// implementations: the implementation's writes are part of the write-set of everything that may invoke it
	p.cbImpls = map[string][]*types.Func{}
	for fn, fi := range p.Funcs {
		if fi.C != nil {
			for _, r := range fi.C.Registers {
				p.cbImpls[r] = append(p.cbImpls[r], fn)
			}
		}
	}
	cbsets := map[*types.Func]map[string]bool{}
	for fn, mi := range infos {
		s := map[string]bool{}
		for k := range mi.cbs {
			s[k] = true
		}
		cbsets[fn] = s
	}
	for ch := true; ch; {
		ch = false
		for fn, mi := range infos {
			s := cbsets[fn]
			for cal := range mi.callees {
				for _, c2 := range p.staticTargets(cal, infos) {
					for k := range cbsets[c2] {
						if !s[k] {
							s[k] = true
							ch = true
						}
					}
				}
			}
		}
	}
	p.cbsets = cbsets
	for fn, mi := range infos {
		for k := range cbsets[fn] {
			for _, impl := range p.cbImpls[k] {
				mi.callees[impl] = true
			}
		}
	}
	// fixpoint
	sets := map[*types.Func]map[string]bool{}
	for fn, mi := range infos {
		s := map[string]bool{}
		for k := range mi.direct {
			s[k] = true
		}
		sets[fn] = s
	}
	changed := true
	for changed {
		changed = false
		for fn, mi := range infos {
			s := sets[fn]
			for cal := range mi.callees {
				for k := range p.calleeSet(cal, sets) {
					if !s[k] {
						s[k] = true
						changed = true
					}
				}
			}
			if resolveCondWrites(p, mi, s, sets) {
				changed = true
			}
		}
	}
	p.modsets = sets
}

// calleeSet returns the write-set contribution of calling fn.
func (p *Program) calleeSet(fn *types.Func, sets map[*types.Func]map[string]bool) map[string]bool {
	if c := p.ContractFor(fn); c != nil && c.ModGiven {
		ks := p.contractKeys(c)
		extra := p.callbackExtra(fn, sets)
		if len(extra) == 0 {
			return ks
		}
		out := map[string]bool{}
		for k := range ks {
			out[k] = true
		}
		for k := range extra {
			out[k] = true
		}
		return out
	}
	if s, ok := sets[fn]; ok {
		return s
	}
	sig := fn.Type().(*types.Signature)
	if sig.Recv() != nil && isInterface(sig.Recv().Type()) {
		// union over implementations in loaded packages
		out := map[string]bool{}
		it := sig.Recv().Type().Underlying().(*types.Interface)
		for f2 := range sets {
			s2 := f2.Type().(*types.Signature)
			if s2.Recv() == nil || f2.Name() != fn.Name() {
				continue
			}
			if types.Implements(s2.Recv().Type(), it) || types.Implements(types.NewPointer(s2.Recv().Type()), it) {
				for k := range sets[f2] {
					out[k] = true
				}
			}
		}
		return out
	}
	if ks, ok := externWrites[fullFuncName(fn)]; ok {
		out := map[string]bool{}
		for _, k := range ks {
			out[k] = true
		}
		return out
	}
	return nil
}

// contractKeys approximates a modifies clause at key granularity (by the types of its designators).
// contractKeysNoCache computes the keys of tmp.Modifies in the scope of the real contract owner.
func (p *Program) contractKeysNoCache(tmp, owner *Contract) map[string]bool {
	saved := owner.Modifies
	savedG := owner.ModGiven
	delete(p.contractKeyCache, owner)
	owner.Modifies, owner.ModGiven = tmp.Modifies, true
	out := p.contractKeys(owner)
	delete(p.contractKeyCache, owner)
	owner.Modifies, owner.ModGiven = saved, savedG
	return out
}

func (p *Program) contractKeys(c *Contract) map[string]bool {
	if ks, ok := p.contractKeyCache[c]; ok {
		return ks
	}
	out := map[string]bool{}
	p.contractKeyCache[c] = out
	sc, err := p.scopeFor(c)
	if err != nil {
		out["*"] = true
		return out
	}
	for _, m := range c.Modifies {
		text := strings.TrimSpace(m)
		if ks, ok := p.wildcardKeys(c, text, sc); ok {
			for _, k := range ks {
				out[k] = true
			}
			continue
		}
		mapContent := strings.HasSuffix(text, "[*]")
		text = strings.TrimSuffix(text, "[*]")
		cl := p.designatorClause(c, text)
		if cl == nil || p.CheckClause(c, cl, sc.pos, sc) != nil {
			out["*"] = true
			continue
		}
		x := cl.Expr
		t := p.CInfo.Types[x].Type
		if mapContent {
			if mt, ok := t.Underlying().(*types.Map); ok {
				for _, k := range mapKeyNames(mt) {
					out[k] = true
				}
				continue
			}
			out["*"] = true
			continue
		}
		switch v := x.(type) {
		case *ast.SelectorExpr:
			if k := p.selectorKey(v, p.CInfo); k != "" {
				out[k] = true
				continue
			}
		case *ast.StarExpr:
			if pt, ok := p.CInfo.Types[v.X].Type.Underlying().(*types.Pointer); ok {
				if su := structOf(pt.Elem()); su != nil && !isPointer(pt.Elem()) {
					for i := 0; i < su.NumFields(); i++ {
						out[fieldKeyName(pt.Elem(), su.Field(i))] = true
					}
				} else {
					out[ptrKeyName(pt.Elem())] = true
				}
				continue
			}
		case *ast.CallExpr:
			if id, ok := v.Fun.(*ast.Ident); ok && strings.HasPrefix(id.Name, "G_") {
				k := "G:" + shortPkg(c.Pkg) + "." + strings.TrimPrefix(id.Name, "G_")
				out[k] = true
				if _, has := keyDescs[k]; !has && t != nil {
					keyDescs[k] = keyDesc{"field", t}
				}
				continue
			}
			if sel, ok := v.Fun.(*ast.SelectorExpr); ok && strings.HasPrefix(sel.Sel.Name, "G_") {
				if fn, ok := p.CInfo.Uses[sel.Sel].(*types.Func); ok {
					k := "G:" + shortPkg(pkgPathOf(fn)) + "." + strings.TrimPrefix(sel.Sel.Name, "G_")
					out[k] = true
					if _, has := keyDescs[k]; !has && t != nil {
						keyDescs[k] = keyDesc{"field", t}
					}
					continue
				}
			}
		}
		out["*"] = true
	}
	return out
}

func (p *Program) selectorKey(v *ast.SelectorExpr, info *types.Info) string {
	sel := info.Selections[v]
	if sel == nil || sel.Kind() != types.FieldVal {
		return ""
	}
	bt := info.Types[v.X].Type
	if bt == nil {
		return ""
	}
	if isPointer(bt) {
		elem := bt.Underlying().(*types.Pointer).Elem()
		return fieldKeyName(elem, structOf(elem).Field(sel.Index()[0]))
	}
	if inner, ok := v.X.(*ast.SelectorExpr); ok {
		return p.selectorKey(inner, info)
	}
	return ""
}

// ModSet returns the write-set of fn (nil if unknown function: no writes assumed).
func (p *Program) ModSet(fn *types.Func) map[string]bool {
	p.buildModsets()
	return p.calleeSet(fn, p.modsets)
}

func (p *Program) scanWrites(fi *FuncInfo, body ast.Node, mi *modInfo) {
	info := fi.Pkg.TypesInfo
	var lhs func(x ast.Expr)
	lhs = func(x ast.Expr) {
		switch v := x.(type) {
		case *ast.ParenExpr:
			lhs(v.X)
		case *ast.SelectorExpr:
			sel := info.Selections[v]
			if sel == nil || sel.Kind() != types.FieldVal {
				return
			}
			bt := info.Types[v.X].Type
			if bt == nil {
				return
			}
			if isPointer(bt) {
				elem := bt.Underlying().(*types.Pointer).Elem()
				su := structOf(elem)
				idx := sel.Index()
				if su != nil && idx[0] < su.NumFields() {
					mi.direct[fieldKeyName(elem, su.Field(idx[0]))] = true
				}
				return
			}
			lhs(v.X)
		case *ast.IndexExpr:
			bt := info.Types[v.X].Type
			if bt == nil {
				return
			}
			switch u := bt.Underlying().(type) {
			case *types.Map:
				for _, k := range mapKeyNames(u) {
					mi.direct[k] = true
				}
			case *types.Slice, *types.Array:
				lhs(v.X)
			}
		case *ast.StarExpr:
			if pt, ok := info.Types[v.X].Type.Underlying().(*types.Pointer); ok {
				if su := structOf(pt.Elem()); su != nil && !isPointer(pt.Elem()) {
					for i := 0; i < su.NumFields(); i++ {
						mi.direct[fieldKeyName(pt.Elem(), su.Field(i))] = true
					}
				} else {
					mi.direct[ptrKeyName(pt.Elem())] = true
				}
			}
		case *ast.Ident:
			// boxed locals live in ptr cells, but those are fresh objects: not a write to pre-existing state
		}
	}
	ast.Inspect(body, func(n ast.Node) bool {
		switch s := n.(type) {
		case *ast.AssignStmt:
			for _, l := range s.Lhs {
				lhs(l)
			}
		case *ast.IncDecStmt:
			lhs(s.X)
		case *ast.RangeStmt:
			if s.Tok == token.ASSIGN {
				if s.Key != nil {
					lhs(s.Key)
				}
				if s.Value != nil {
					lhs(s.Value)
				}
			}
		case *ast.GoStmt:
			// the goroutine's effects are not part of the sequential model
			return false
		case *ast.CallExpr:
			fun := s.Fun
			for {
				if pe, ok := fun.(*ast.ParenExpr); ok {
					fun = pe.X
				} else {
					break
				}
			}
			if tv, ok := info.Types[fun]; ok && tv.IsType() {
				return true
			}
			switch f := fun.(type) {
			case *ast.Ident:
				switch o := info.Uses[f].(type) {
				case *types.Builtin:
					if f.Name == "delete" && len(s.Args) > 0 {
						if mt, ok := info.Types[s.Args[0]].Type.Underlying().(*types.Map); ok {
							for _, k := range mapKeyNames(mt) {
								mi.direct[k] = true
							}
						}
					}
					if f.Name == "copy" && len(s.Args) > 0 {
						lhs(s.Args[0])
					}
				case *types.Func:
					mi.callees[o] = true
				case *types.Var:
					// local closure defined in this function: its body is scanned as part of this body
					if _, isSig := o.Type().Underlying().(*types.Signature); isSig {
						if !definedInBody(info, o, fi.Decl.Body) {
							mi.direct["*"] = true
						}
					}
				}
			case *ast.SelectorExpr:
				if sel := info.Selections[f]; sel != nil {
					switch sel.Kind() {
					case types.MethodVal:
						fn := sel.Obj().(*types.Func)
						if !isLogrus(fn) {
							mi.callees[fn] = true
							// pointer-receiver method on an addressable struct value writes that location
							if sig := fn.Type().(*types.Signature); sig.Recv() != nil && isPointer(sig.Recv().Type()) {
								if bt := info.Types[f.X].Type; bt != nil && !isPointer(bt) && !isInterface(bt) {
									// ... if the method writes fields of its receiver type (resolved in the fixpoint)
									elem := sig.Recv().Type().Underlying().(*types.Pointer).Elem()
									tmp := &modInfo{direct: map[string]bool{}, callees: map[*types.Func]bool{}, cbs: map[string]bool{}}
									saved := mi.direct
									mi.direct = tmp.direct
									lhs(f.X)
									mi.direct = saved
									mi.condWrites = append(mi.condWrites, condWrite{fn, "F:" + shortTypeName(elem) + ".", tmp.direct})
								}
							}
						}
					case types.FieldVal:
						if fi.C == nil || !fi.C.PureFields[f.Sel.Name] {
							mi.direct["*"] = true
						} else if len(fi.C.CallbackMods[f.Sel.Name]) > 0 {
							if bt := info.Types[f.X].Type; bt != nil {
								if isPointer(bt) {
									bt = bt.Underlying().(*types.Pointer).Elem()
								}
								if n, ok := types.Unalias(bt).(*types.Named); ok {
									mi.cbs[n.Obj().Name()+"."+f.Sel.Name] = true
									if ft, ok := info.Types[f].Type.(*types.Named); ok {
										if p.cbFieldType == nil {
											p.cbFieldType = map[string]*types.Named{}
										}
										p.cbFieldType[n.Obj().Name()+"."+f.Sel.Name] = ft
									}
								}
							}
							if sc, err := p.scopeFor(fi.C); err == nil {
								for _, m := range fi.C.CallbackMods[f.Sel.Name] {
									if ks, ok := p.wildcardKeys(fi.C, m, sc); ok {
										for _, k := range ks {
											mi.direct[k] = true
										}
									} else {
										tmp := &Contract{Key: fi.C.Key, Pkg: fi.C.Pkg, File: fi.C.File, Line: fi.C.Line, ParamName: fi.C.ParamName, RecvName: fi.C.RecvName, Modifies: []string{m}, ModGiven: true}
										for k := range p.contractKeysNoCache(tmp, fi.C) {
											mi.direct[k] = true
										}
									}
								}
							}
						}
					}
				} else if o, ok := info.Uses[f.Sel].(*types.Func); ok {
					if !isLogrus(o) {
						mi.callees[o] = true
					}
				} else if _, ok := info.Uses[f.Sel].(*types.Var); ok {
					mi.direct["*"] = true
				}
			case *ast.FuncLit:
				// immediately invoked literal: body scanned by Inspect
			default:
				mi.direct["*"] = true
			}
		}
		return true
	})
}

func definedInBody(info *types.Info, o *types.Var, body ast.Node) bool {
	return o.Pos() >= body.Pos() && o.Pos() <= body.End()
}

// loopWrites: direct writes of a loop body, by heap key, with the base expression holding the written
// object (x in x.f = v, m in m[k] = v / delete(m, k)); nil base = not a simple direct write.
type loopWrite struct {
	base ast.Expr
}

func (e *Exec) directWrites(body ast.Node, extra []ast.Node) map[string][]loopWrite {
	out := map[string][]loopWrite{}
	info := e.fr().info
	add := func(k string, base ast.Expr) { out[k] = append(out[k], loopWrite{base}) }
	var lhs func(x ast.Expr)
	lhs = func(x ast.Expr) {
		switch v := x.(type) {
		case *ast.ParenExpr:
			lhs(v.X)
		case *ast.SelectorExpr:
			sel := info.Selections[v]
			if sel == nil || sel.Kind() != types.FieldVal {
				return
			}
			bt := info.Types[v.X].Type
			if bt == nil {
				return
			}
			if isPointer(bt) {
				elem := bt.Underlying().(*types.Pointer).Elem()
				su := structOf(elem)
				idx := sel.Index()
				if su != nil && idx[0] < su.NumFields() {
					var base ast.Expr = v.X
					if len(idx) > 1 {
						base = nil
					}
					add(fieldKeyName(elem, su.Field(idx[0])), base)
				}
				return
			}
			lhs(v.X)
		case *ast.IndexExpr:
			bt := info.Types[v.X].Type
			if bt == nil {
				return
			}
			switch u := bt.Underlying().(type) {
			case *types.Map:
				for _, k := range mapKeyNames(u) {
					add(k, v.X)
				}
			case *types.Slice, *types.Array:
				lhs(v.X)
			}
		case *ast.StarExpr:
			if pt, ok := info.Types[v.X].Type.Underlying().(*types.Pointer); ok {
				if su := structOf(pt.Elem()); su != nil && !isPointer(pt.Elem()) {
					for i := 0; i < su.NumFields(); i++ {
						add(fieldKeyName(pt.Elem(), su.Field(i)), v.X)
					}
				} else {
					add(ptrKeyName(pt.Elem()), v.X)
				}
			}
		}
	}
	scan := func(n ast.Node) {
		ast.Inspect(n, func(x ast.Node) bool {
			switch s := x.(type) {
			case *ast.AssignStmt:
				for _, l := range s.Lhs {
					lhs(l)
				}
			case *ast.IncDecStmt:
				lhs(s.X)
			case *ast.CallExpr:
				if id, ok := s.Fun.(*ast.Ident); ok {
					if _, isB := info.Uses[id].(*types.Builtin); isB && id.Name == "delete" && len(s.Args) > 0 {
						if mt, ok := info.Types[s.Args[0]].Type.Underlying().(*types.Map); ok {
							for _, k := range mapKeyNames(mt) {
								add(k, s.Args[0])
							}
						}
					}
				}
			}
			return true
		})
	}
	scan(body)
	for _, x := range extra {
		if x != nil {
			scan(x)
		}
	}
	return out
}

// calleeKeysOf returns the heap keys written by the calls made in a loop body (callee write-sets only).
func (e *Exec) calleeKeysOf(body ast.Node, extra []ast.Node) map[string]bool {
	mi := &modInfo{direct: map[string]bool{}, callees: map[*types.Func]bool{}, cbs: map[string]bool{}}
	fi := e.fr().fi
	e.P.scanWrites(fi, body, mi)
	for _, x := range extra {
		if x != nil {
			e.P.scanWrites(fi, x, mi)
		}
	}
	out := map[string]bool{}
	if mi.direct["*"] {
		out["*"] = true
	}
	ast.Inspect(body, func(n ast.Node) bool {
		if c, ok := n.(*ast.CallExpr); ok {
			if id, ok := c.Fun.(*ast.Ident); ok {
				if lit := e.closureLit(id); lit != nil {
					m2 := &modInfo{direct: map[string]bool{}, callees: map[*types.Func]bool{}, cbs: map[string]bool{}}
					e.P.scanWrites(fi, lit.Body, m2)
					for k := range m2.direct {
						out[k] = true
					}
					for cal := range m2.callees {
						mi.callees[cal] = true
					}
				}
			}
		}
		return true
	})
	for cal := range mi.callees {
		for k := range e.P.ModSet(cal) {
			out[k] = true
		}
	}
	for cb := range mi.cbs {
		for _, impl := range e.P.cbImplsOf(cb) {
			for k := range e.P.ModSet(impl) {
				out[k] = true
			}
		}
	}
	resolveCondWrites(e.P, mi, out, e.P.modsets)
	return out
}

// stableExpr: the value of x cannot change during the loop (only variables not assigned in the loop and
// fields whose heap key the loop does not write).
func (e *Exec) stableExpr(x ast.Expr, assigned map[types.Object]bool, modKeys map[string]bool) bool {
	info := e.fr().info
	switch v := x.(type) {
	case *ast.ParenExpr:
		return e.stableExpr(v.X, assigned, modKeys)
	case *ast.Ident:
		o := info.Uses[v]
		if o == nil {
			o = info.Defs[v]
		}
		if o == nil || assigned[o] || e.boxed[o] {
			return false
		}
		_, isVar := o.(*types.Var)
		return isVar
	case *ast.SelectorExpr:
		sel := info.Selections[v]
		if sel == nil || sel.Kind() != types.FieldVal || len(sel.Index()) != 1 {
			return false
		}
		bt := info.Types[v.X].Type
		if bt == nil {
			return false
		}
		if isPointer(bt) {
			elem := bt.Underlying().(*types.Pointer).Elem()
			k := fieldKeyName(elem, structOf(elem).Field(sel.Index()[0]))
			if modKeys[k] || modKeys["*"] {
				return false
			}
		}
		return e.stableExpr(v.X, assigned, modKeys)
	}
	return false
}

// modKeysOf returns the heap keys a loop body (plus extra nodes) may write.
func (e *Exec) modKeysOf(body ast.Node, extra []ast.Node) map[string]bool {
	mi := &modInfo{direct: map[string]bool{}, callees: map[*types.Func]bool{}, cbs: map[string]bool{}}
	fi := e.fr().fi
	e.P.scanWrites(fi, body, mi)
	for _, x := range extra {
		if x != nil {
			e.P.scanWrites(fi, x, mi)
		}
	}
	// closures called in the body but defined outside it
	ast.Inspect(body, func(n ast.Node) bool {
		if c, ok := n.(*ast.CallExpr); ok {
			if id, ok := c.Fun.(*ast.Ident); ok {
				if lit := e.closureLit(id); lit != nil {
					e.P.scanWrites(fi, lit.Body, mi)
				}
			}
		}
		return true
	})
	out := map[string]bool{}
	for k := range mi.direct {
		out[k] = true
	}
	for cal := range mi.callees {
		for k := range e.P.ModSet(cal) {
			out[k] = true
		}
	}
	e.P.buildModsets()
	resolveCondWrites(e.P, mi, out, e.P.modsets)
	for cb := range mi.cbs {
		for _, impl := range e.P.cbImplsOf(cb) {
			for k := range e.P.ModSet(impl) {
				out[k] = true
			}
		}
	}
	// register keys that are not yet known to this run (so that havoc covers them if used later)
	return out
}

// staticTargets: fn itself, or - for an interface method - its implementations in the loaded packages.
func (p *Program) staticTargets(fn *types.Func, infos map[*types.Func]*modInfo) []*types.Func {
	if _, ok := infos[fn]; ok {
		return []*types.Func{fn}
	}
	sig := fn.Type().(*types.Signature)
	if sig.Recv() == nil || !isInterface(sig.Recv().Type()) {
		return nil
	}
	it := sig.Recv().Type().Underlying().(*types.Interface)
	var out []*types.Func
	for f2 := range infos {
		s2 := f2.Type().(*types.Signature)
		if s2.Recv() == nil || f2.Name() != fn.Name() {
			continue
		}
		if types.Implements(s2.Recv().Type(), it) || types.Implements(types.NewPointer(s2.Recv().Type()), it) {
			out = append(out, f2)
		}
	}
	return out
}

// ownPkgKey: heap keys that belong to package pkg (fields of its types, its ghost fields): state that a clause of
// another package cannot name.
func ownPkgKey(k, pkg string) bool {
	short := pkg
	if i := strings.LastIndex(short, "/"); i >= 0 {
		short = short[i+1:]
	}
	if strings.HasPrefix(k, "F:"+short+"_") || strings.HasPrefix(k, "G:"+short+".") {
		return true
	}
	// maps / pointer cells whose type mentions a type of the package
	if strings.HasPrefix(k, "M") || strings.HasPrefix(k, "P:") {
		return strings.Contains(k, mangle(pkg)+"_")
	}
	return false
}

// CallbackFrameNotes: what a registered callback implementation writes outside its own package must be allowed by
// the `callback <field> modifies ...` clause of every function that invokes the field directly.
func (p *Program) CallbackFrameNotes() []string {
	p.buildModsets()
	var out []string
	for fn, fi := range p.Funcs {
		if fi.C == nil || fi.Decl.Body == nil {
			continue
		}
		for field, mods := range fi.C.CallbackMods {
			allowed := map[string]bool{}
			sc, err := p.scopeFor(fi.C)
			if err != nil {
				continue
			}
			for _, m := range mods {
				if ks, ok := p.wildcardKeys(fi.C, m, sc); ok {
					for _, k := range ks {
						allowed[k] = true
					}
				} else {
					tmp := &Contract{Key: fi.C.Key, Pkg: fi.C.Pkg, File: fi.C.File, Line: fi.C.Line, ParamName: fi.C.ParamName, RecvName: fi.C.RecvName, Modifies: []string{m}, ModGiven: true}
					for k := range p.contractKeysNoCache(tmp, fi.C) {
						allowed[k] = true
					}
				}
			}
			for cb, impls := range p.cbImpls {
				if !strings.HasSuffix(cb, "."+field) || !p.cbsets[fn][cb] {
					continue
				}
				for _, impl := range impls {
					pkg := ""
					if impl.Pkg() != nil {
						pkg = impl.Pkg().Path()
					}
					var bad []string
					for k := range p.calleeSet(impl, p.modsets) {
						if !ownPkgKey(k, pkg) && !allowed[k] && !allowed["*"] {
							bad = append(bad, k)
						}
					}
					sortStrings(bad)
					for _, k := range bad {
						out = append(out, fullFuncName(impl)+"|"+cb+"|"+k+"|"+fi.FullName())
					}
				}
			}
		}
	}
	sortStrings(out)
	return out
}

// callbackExtra: for a function with a declared frame, the keys written by the registered implementations of the
// callbacks it may (transitively) invoke that belong to the implementation's own package - a declared frame of
// another package cannot list them, yet a caller in the implementation's package must see them havocked. What
// an implementation writes outside its own package must be allowed by the `callback ... modifies` clause; that is
// checked by CallbackFrameNotes.
func (p *Program) callbackExtra(fn *types.Func, sets map[*types.Func]map[string]bool) map[string]bool {
	cbs := p.cbsets[fn]
	if len(cbs) == 0 {
		return nil
	}
	out := map[string]bool{}
	for cb := range cbs {
		for _, impl := range p.cbImpls[cb] {
			pkg := ""
			if impl.Pkg() != nil {
				pkg = impl.Pkg().Path()
			}
			var ms map[string]bool
			if c := p.ContractFor(impl); c != nil && c.ModGiven {
				ms = p.contractKeys(c)
			} else {
				ms = sets[impl]
			}
			for k := range ms {
				if k == "*" || ownPkgKey(k, pkg) {
					out[k] = true
				}
			}
		}
	}
	return out
}

// CallbackExtra is callbackExtra over the final write-sets.
func (p *Program) CallbackExtra(fn *types.Func) map[string]bool {
	p.buildModsets()
	return p.callbackExtra(fn, p.modsets)
}

// BaseModSet: the write-set of fn without what registered callback implementations write.
func (p *Program) BaseModSet(fn *types.Func) map[string]bool {
	p.buildModsets()
	if c := p.ContractFor(fn); c != nil && c.ModGiven {
		return p.contractKeys(c)
	}
	return p.calleeSet(fn, p.baseModsets)
}

// CallbackRegistrationNotes: every function the (non-test) program converts to the named function type of a
// callback field must be registered for it (`registers Type.field` on its contract) - otherwise its writes would be
// missing from the write-set of whatever invokes the field.
func (p *Program) CallbackRegistrationNotes() []string {
	p.buildModsets()
	var out []string
	for cb, ft := range p.cbFieldType {
		registered := map[*types.Func]bool{}
		for _, f := range p.cbImpls[cb] {
			registered[f] = true
		}
		for _, pkg := range p.Pkgs {
			info := pkg.TypesInfo
			if info == nil {
				continue
			}
			check := func(dst types.Type, src ast.Expr) {
				if dst == nil || !types.Identical(dst, ft) {
					return
				}
				for {
					if pe, ok := src.(*ast.ParenExpr); ok {
						src = pe.X
					} else {
						break
					}
				}
				var fn *types.Func
				switch v := src.(type) {
				case *ast.Ident:
					fn, _ = info.Uses[v].(*types.Func)
				case *ast.SelectorExpr:
					if sel := info.Selections[v]; sel != nil && sel.Kind() == types.MethodVal {
						fn, _ = sel.Obj().(*types.Func)
					} else if sel == nil {
						fn, _ = info.Uses[v.Sel].(*types.Func)
					}
				case *ast.FuncLit:
					out = append(out, "UNSUPPORTED: a function literal is installed as callback "+cb+" at "+pkg.Fset.Position(v.Pos()).String()+": it cannot be registered, its writes are unknown to the invoker")
					return
				}
				if fn != nil && !registered[fn] {
					out = append(out, "UNSUPPORTED: "+fullFuncName(fn)+" is installed as callback "+cb+" at "+pkg.Fset.Position(src.Pos()).String()+" but its contract does not say `registers "+cb+"`")
				}
			}
			for _, file := range pkg.Syntax {
				if strings.HasSuffix(pkg.Fset.Position(file.Pos()).Filename, "_test.go") {
					continue
				}
				ast.Inspect(file, func(n ast.Node) bool {
					switch v := n.(type) {
					case *ast.CallExpr:
						if tv, ok := info.Types[v.Fun]; ok && tv.IsType() {
							if len(v.Args) == 1 {
								check(tv.Type, v.Args[0])
							}
							return true
						}
						if sig, ok := info.Types[v.Fun].Type.(*types.Signature); ok {
							for i, a := range v.Args {
								if i < sig.Params().Len() {
									check(sig.Params().At(i).Type(), a)
								}
							}
						}
					case *ast.AssignStmt:
						if len(v.Lhs) == len(v.Rhs) {
							for i := range v.Lhs {
								if t := info.Types[v.Lhs[i]].Type; t != nil {
									check(t, v.Rhs[i])
								} else if id, ok := v.Lhs[i].(*ast.Ident); ok {
									if o := info.Defs[id]; o != nil {
										check(o.Type(), v.Rhs[i])
									}
								}
							}
						}
					case *ast.ValueSpec:
						if v.Type != nil && len(v.Values) == len(v.Names) {
							for i := range v.Names {
								check(info.Types[v.Type].Type, v.Values[i])
							}
						}
					case *ast.CompositeLit:
						if st, ok := info.Types[v].Type.Underlying().(*types.Struct); ok {
							for i, el := range v.Elts {
								if kv, ok := el.(*ast.KeyValueExpr); ok {
									if id, ok := kv.Key.(*ast.Ident); ok {
										for j := 0; j < st.NumFields(); j++ {
											if st.Field(j).Name() == id.Name {
												check(st.Field(j).Type(), kv.Value)
											}
										}
									}
								} else if i < st.NumFields() {
									check(st.Field(i).Type(), el)
								}
							}
						}
					case *ast.ReturnStmt:
						// returning a function as the callback type: not tracked (no such code in the repository)
					}
					return true
				})
			}
		}
	}
	sortStrings(out)
	return out
}

// resolveCondWrites adds the keys of conditional receiver writes whose callee turned out to write its receiver type.
func resolveCondWrites(p *Program, mi *modInfo, s map[string]bool, sets map[*types.Func]map[string]bool) bool {
	changed := false
	for _, cw := range mi.condWrites {
		writes := false
		cs := p.calleeSet(cw.callee, sets)
		if cs == nil {
			if _, known := sets[cw.callee]; !known && p.ContractFor(cw.callee) == nil {
				writes = true // unknown method: assume it writes its receiver
			}
		}
		for k := range cs {
			if k == "*" || strings.HasPrefix(k, cw.prefix) {
				writes = true
			}
		}
		if writes {
			for k := range cw.keys {
				if !s[k] {
					s[k] = true
					changed = true
				}
			}
		}
	}
	return changed
}
