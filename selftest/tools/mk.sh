#!/bin/sh
# usage: selftest/mk.sh <name> "<expected obligation regex>" "<functions to check>" — run after editing /repo;
# saves the working-tree diff of /repo (non-contract files) as a must-fail patch and restores /repo.
set -e
name=$1; expect=$2; funcs=$3; props=$4
cd /repo
git diff -- src ':!*contracts_verif.go' > /verif/selftest/$name.patch
[ -s /verif/selftest/$name.patch ] || { echo "empty diff"; exit 1; }
python3 -c 'import json,sys; json.dump({"patch":sys.argv[1]+".patch","expect":sys.argv[2],"funcs":sys.argv[3],"properties":" ".join(sys.argv[4].replace(","," ").split())}, open("/verif/selftest/"+sys.argv[1]+".json","w"))' "$name" "$expect" "$funcs" "$props"
git checkout -- $(git diff --name-only -- src ':!*contracts_verif.go')
echo saved $name
