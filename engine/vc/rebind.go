package vc

import (
	"fmt"
	"go/ast"
	"go/types"
	"sort"
	"strings"
)

// Hint rebinding. Contract clauses may name local variables of the function (loop counters in invariants, witnesses
// in postconditions). When such a name no longer exists - a harmless rename - the clause does not type-check and the
// function would be reported as a hint mismatch. VerifyFuncRebinding then tries the function's current locals in
// place of every unresolved name and keeps the first assignment under which EVERY obligation of the function
// discharges. A wrong binding cannot prove anything false, it can only fail; the binding used is reported.

// allClauses lists every clause of the contract.
func (c *Contract) allClauses() []*Clause {
	var out []*Clause
	out = append(out, c.Requires...)
	out = append(out, c.Assumes...)
	out = append(out, c.Ensures...)
	out = append(out, c.Aux...)
	for _, ls := range c.Loops {
		out = append(out, ls.Invariants...)
		if ls.Decreases != nil {
			out = append(out, ls.Decreases)
		}
	}
	for _, ca := range c.Calls {
		out = append(out, ca.Clause)
	}
	for _, gs := range c.GhostSets {
		if gs.Value != nil {
			out = append(out, gs.Value)
		}
		if gs.When != nil {
			out = append(out, gs.When)
		}
	}
	return out
}

// unresolvedLocals: identifiers of failing clauses that resolve to nothing at the function's end-of-body position.
func (p *Program) unresolvedLocals(fi *FuncInfo) []string {
	c := fi.C
	sc, err := p.scopeFor(c)
	if err != nil {
		return nil
	}
	seen := map[string]bool{}
	for _, cl := range c.allClauses() {
		if p.checkErr[cl] == nil {
			continue
		}
		bound := map[string]bool{}
		ast.Inspect(cl.Expr, func(n ast.Node) bool {
			if fl, ok := n.(*ast.FuncLit); ok {
				for _, f := range fl.Type.Params.List {
					for _, nm := range f.Names {
						bound[nm.Name] = true
					}
				}
			}
			return true
		})
		var walk func(n ast.Node)
		walk = func(n ast.Node) {
			ast.Inspect(n, func(x ast.Node) bool {
				switch v := x.(type) {
				case *ast.SelectorExpr:
					walk(v.X)
					return false
				case *ast.KeyValueExpr:
					walk(v.Value)
					return false
				case *ast.Ident:
					if bound[v.Name] || strings.HasPrefix(v.Name, "__") || strings.HasPrefix(v.Name, "G_") || v.Name == "_" {
						return true
					}
					if inner := sc.pkg.Scope().Innermost(sc.pos); inner != nil {
						if _, o := inner.LookupParent(v.Name, sc.pos); o != nil {
							return true
						}
					}
					if _, o := sc.pkg.Scope().LookupParent(v.Name, sc.pos); o != nil {
						return true
					}
					if o := types.Universe.Lookup(v.Name); o != nil {
						return true
					}
					if sc.info != nil {
						// a local visible somewhere in the function?
						found := false
						for id, o := range sc.info.Defs {
							if o != nil && id.Name == v.Name && fi.Decl.Body != nil && id.Pos() >= fi.Decl.Pos() && id.Pos() <= fi.Decl.End() {
								found = true
							}
						}
						if found {
							return true
						}
					}
					seen[v.Name] = true
				}
				return true
			})
		}
		walk(cl.Expr)
	}
	var out []string
	for k := range seen {
		out = append(out, k)
	}
	sort.Strings(out)
	return out
}

// localNames: names of the local variables declared in the function body, in source order.
func (p *Program) localNames(fi *FuncInfo) []string {
	type nv struct {
		name string
		pos  int
	}
	var vs []nv
	seen := map[string]bool{}
	for id, o := range fi.Pkg.TypesInfo.Defs {
		v, ok := o.(*types.Var)
		if !ok || v.IsField() || fi.Decl.Body == nil {
			continue
		}
		if id.Pos() < fi.Decl.Body.Lbrace || id.Pos() > fi.Decl.Body.Rbrace || id.Name == "_" {
			continue
		}
		if !seen[id.Name] {
			seen[id.Name] = true
			vs = append(vs, nv{id.Name, int(id.Pos())})
		}
	}
	sort.Slice(vs, func(i, j int) bool { return vs[i].pos < vs[j].pos })
	var out []string
	for _, v := range vs {
		out = append(out, v.name)
	}
	return out
}

func (p *Program) resetClauseChecks(c *Contract) {
	for _, cl := range c.allClauses() {
		delete(p.checked, cl)
		delete(p.checkErr, cl)
	}
}

// VerifyFuncRebinding is VerifyFunc with hint repair: discharged(obligations) must say whether every obligation
// (vacuity canaries aside) is proved.
func (p *Program) VerifyFuncRebinding(fi *FuncInfo, failures func([]*Obligation) int) *FuncResult {
	discharged := func(obs []*Obligation) bool { return failures(obs) == 0 }
	_ = discharged
	var best *FuncResult
	bestN := -1
	var bestLoops map[int]*LoopSpec
	var bestRen map[string]string
	consider := func(r *FuncResult, n int, note string) {
		if bestN < 0 || n < bestN {
			bestN = n
			best = r
			bestLoops = fi.C.Loops
			bestRen = fi.C.LocalRen
			best.Assumed = append(best.Assumed, note)
		}
	}
	res := p.VerifyFunc(fi)
	if fi.C == nil || len(res.Unsupported) == 0 {
		return res
	}
	mismatch := false
	for _, u := range res.Unsupported {
		if strings.Contains(u, "does not type-check") || strings.Contains(u, "contract names loop") || strings.Contains(u, "was never reached by the symbolic execution") || strings.Contains(u, "has no value") {
			mismatch = true
		}
	}
	if !mismatch {
		return res
	}
	// (1) a loop was added or removed before a hinted loop: try the hints on shifted loop ordinals
	if len(fi.C.Loops) > 0 && fi.Decl.Body != nil {
		orig := fi.C.Loops
		n := len(loopsInOrder(fi.Decl.Body))
		var ords []int
		for o := range orig {
			ords = append(ords, o)
		}
		sort.Ints(ords)
		var cands []map[int]int
		for d := 1; d <= 3; d++ {
			for _, sign := range []int{1, -1} {
				for pos := 0; pos < len(ords); pos++ {
					m := map[int]int{}
					ok := true
					prev := 0
					for i, o := range ords {
						t := o
						if i >= pos {
							t = o + sign*d
						}
						if t < 1 || t > n || t <= prev {
							ok = false
							break
						}
						prev = t
						m[o] = t
					}
					if ok {
						cands = append(cands, m)
					}
				}
			}
		}
		if len(cands) > 12 {
			cands = cands[:12]
		}
		for _, m := range cands {
			shifted := map[int]*LoopSpec{}
			for o, t := range m {
				shifted[t] = orig[o]
			}
			fi.C.Loops = shifted
			p.resetClauseChecks(fi.C)
			r2 := p.VerifyFunc(fi)
			if len(r2.Unsupported) > 0 {
				continue
			}
			nf := failures(r2.Obligations)
			var parts []string
			for _, o := range ords {
				if m[o] != o {
					parts = append(parts, fmt.Sprintf("loop %d -> loop %d", o, m[o]))
				}
			}
			note := fmt.Sprintf("loop hints of %s were written for other loop ordinals (a loop was added or removed); applied as %s (a wrong assignment could only fail)", r2.Func, strings.Join(parts, ", "))
			if nf == 0 {
				r2.Assumed = append(r2.Assumed, note)
				return r2
			}
			consider(r2, nf, note)
		}
		if best != nil {
			// no assignment discharges everything, but one type-checks: report what fails under the best one (the
			// hints as written do not even apply to the function any more)
			fi.C.Loops = bestLoops
			fi.C.LocalRen = bestRen
			p.resetClauseChecks(fi.C)
			r := p.VerifyFunc(fi)
			r.Assumed = append(r.Assumed, best.Assumed[len(best.Assumed)-1])
			return r
		}
		fi.C.Loops = orig
		p.resetClauseChecks(fi.C)
		res = p.VerifyFunc(fi) // re-populates the clause check results that (2) reads
	}
	// (2) a local named by a hint was renamed
	missing := p.unresolvedLocals(fi)
	if len(missing) == 0 || len(missing) > 2 {
		return res
	}
	locals := p.localNames(fi)
	if len(locals) > 48 {
		locals = locals[:48]
	}
	// candidate assignments: one local per missing name
	var assigns []map[string]string
	var build func(i int, cur map[string]string)
	build = func(i int, cur map[string]string) {
		if i == len(missing) {
			m := map[string]string{}
			for k, v := range cur {
				m[k] = v
			}
			assigns = append(assigns, m)
			return
		}
		for _, l := range locals {
			used := false
			for _, v := range cur {
				if v == l {
					used = true
				}
			}
			if used {
				continue
			}
			cur[missing[i]] = l
			build(i+1, cur)
			delete(cur, missing[i])
		}
	}
	build(0, map[string]string{})
	tried := 0
	var bestLocal map[string]string
	bestLocalN := -1
	bestLocalNote := ""
	for _, as := range assigns {
		fi.C.LocalRen = as
		p.resetClauseChecks(fi.C)
		r2 := p.VerifyFunc(fi)
		if len(r2.Unsupported) > 0 {
			continue // this binding does not even type-check
		}
		tried++
		if tried > 8 {
			break
		}
		nf := failures(r2.Obligations)
		var parts []string
		for k, v := range as {
			parts = append(parts, k+" -> "+v)
		}
		sort.Strings(parts)
		note := fmt.Sprintf("proof hints of %s name local variable(s) that no longer exist; rebound %s (a wrong binding could only fail)", r2.Func, strings.Join(parts, ", "))
		if nf == 0 {
			r2.Assumed = append(r2.Assumed, note)
			return r2
		}
		if bestLocalN < 0 || nf < bestLocalN {
			bestLocalN = nf
			bestLocal = as
			bestLocalNote = note
		}
	}
	if bestLocal != nil {
		// no binding discharges everything (the function may carry a listed open finding): report what fails under
		// the best type-checking one - the hints as written do not apply to the function at all any more
		fi.C.LocalRen = bestLocal
		p.resetClauseChecks(fi.C)
		r := p.VerifyFunc(fi)
		r.Assumed = append(r.Assumed, bestLocalNote)
		return r
	}
	fi.C.LocalRen = nil
	p.resetClauseChecks(fi.C)
	return p.VerifyFunc(fi)
}
