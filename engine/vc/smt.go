package vc

import (
	"bytes"
	"context"
	"fmt"
	"os"
	"os/exec"
	"path/filepath"
	"strings"
	"sync"
	"time"
)

// Result of discharging one obligation.
type Result struct {
	Ob       *Obligation
	Status   string // unsat (proved) | sat | unknown | timeout | error
	Solver   string
	Seconds  float64
	Model    string
	SMTBytes int
	Detail   string
}

type solverSpec struct {
	name string
	args func(file string, timeoutSec int) []string
	bin  string
}

var solvers = []solverSpec{
	{name: "z3-4.8.12", bin: "z3", args: func(f string, t int) []string { return []string{fmt.Sprintf("-T:%d", t), f} }},
	{name: "z3-5.1.0", bin: "z3-new", args: func(f string, t int) []string { return []string{fmt.Sprintf("-T:%d", t), f} }},
	{name: "cvc5-1.0", bin: "cvc5", args: func(f string, t int) []string {
		return []string{fmt.Sprintf("--tlimit=%d", t*1000), "--full-saturate-quant", f}
	}},
}

// Solve races the solvers on the obligation. The first unsat wins; otherwise the first sat; otherwise unknown.
func Solve(o *Obligation, dir string, timeoutSec int) *Result {
	if o.MustFail || len(o.Parts) == 0 {
		return solveGoal(o, o.Goal, "", dir, timeoutSec)
	}
	// the whole goal and its conjuncts (same hypotheses) are attempted concurrently; the obligation is
	// discharged when the whole goal is, or when every conjunct is
	wholeCh := make(chan *Result, 1)
	go func() { wholeCh <- solveGoal(o, o.Goal, "", dir, timeoutSec) }()
	partsCh := make(chan *Result, 1)
	go func() {
		// conjuncts in parallel, four at a time
		results := make([]*Result, len(o.Parts))
		sem := make(chan struct{}, 4)
		var wg sync.WaitGroup
		for i, p := range o.Parts {
			wg.Add(1)
			sem <- struct{}{}
			go func(i int, p Term) {
				defer wg.Done()
				defer func() { <-sem }()
				results[i] = solveGoal(o, p, fmt.Sprintf(".part%d", i+1), dir, timeoutSec)
			}(i, p)
		}
		wg.Wait()
		maxT := 0.0
		solver := ""
		for i, r := range results {
			if r.Seconds > maxT {
				maxT = r.Seconds
			}
			if r.Status != "unsat" {
				r.Detail = fmt.Sprintf("conjunct %d of %d: %s", i+1, len(o.Parts), r.Detail)
				partsCh <- r
				return
			}
			solver = r.Solver
		}
		partsCh <- &Result{Ob: o, Status: "unsat", Solver: solver + " (by conjuncts)", Seconds: maxT}
	}()
	var whole, parts *Result
	for whole == nil || parts == nil {
		select {
		case whole = <-wholeCh:
			if whole.Status == "unsat" || (whole.Status == "sat" && !o.ctx.NeedsQuant) {
				return whole
			}
		case parts = <-partsCh:
			if parts.Status == "unsat" {
				parts.SMTBytes = len(o.SMT(false))
				return parts
			}
		}
	}
	if parts.Status == "sat" {
		return parts
	}
	if whole.Status == "sat" {
		return whole
	}
	parts.SMTBytes = whole.SMTBytes
	return parts
}

func solveGoal(o *Obligation, goal Term, suffix, dir string, timeoutSec int) *Result {
	if o.Raw != "" && timeoutSec < 300 {
		timeoutSec = 300 // closed bit-vector / floating-point side condition: cvc5 needs about a minute, more under load
	}
	if o.MustFail && timeoutSec > 2 {
		timeoutSec = 2 // reachability canary: "false" must not be provable; no need to wait for a model
	}
	smt := o.smtFor(goal, true)
	// cvc5 wants produce-models before set-logic (it is) and rejects (get-model) after unsat with an
	// error line after the verdict: only the first line is parsed.
	file := filepath.Join(dir, sanitize(o.Name)+suffix+".smt2")
	os.WriteFile(file, []byte(smt), 0o644)
	res := &Result{Ob: o, SMTBytes: len(smt), Status: "unknown"}
	type ans struct {
		solver  string
		verdict string
		out     string
		secs    float64
	}
	ctx, cancel := context.WithTimeout(context.Background(), time.Duration(timeoutSec+2)*time.Second)
	defer cancel()
	ch := make(chan ans, len(solvers))
	var wg sync.WaitGroup
	for _, s := range solvers {
		wg.Add(1)
		go func(s solverSpec) {
			defer wg.Done()
			start := time.Now()
			cmd := exec.CommandContext(ctx, s.bin, s.args(file, timeoutSec)...)
			var out bytes.Buffer
			cmd.Stdout = &out
			cmd.Stderr = &out
			cmd.Run()
			first := strings.TrimSpace(strings.SplitN(out.String(), "\n", 2)[0])
			ch <- ans{s.name, first, out.String(), time.Since(start).Seconds()}
		}(s)
	}
	go func() { wg.Wait(); close(ch) }()
	var satAns *ans
	var details []string
	for a := range ch {
		a := a
		switch a.verdict {
		case "unsat":
			res.Status, res.Solver, res.Seconds = "unsat", a.solver, a.secs
			cancel()
			return res
		case "sat":
			if satAns == nil {
				satAns = &a
				if !o.ctx.NeedsQuant {
					// quantifier-free: a model is definitive
					res.Status, res.Solver, res.Seconds, res.Model = "sat", a.solver, a.secs, a.out
					cancel()
					return res
				}
			}
		default:
			details = append(details, a.solver+": "+trunc(a.verdict, 120))
		}
	}
	if satAns != nil {
		res.Status, res.Solver, res.Seconds, res.Model = "sat", satAns.solver, satAns.secs, satAns.out
		return res
	}
	res.Detail = strings.Join(details, "; ")
	if strings.Contains(res.Detail, "timeout") || ctx.Err() != nil {
		res.Status = "timeout"
	}
	return res
}

// SolveAll discharges obligations in parallel.
func SolveAll(obs []*Obligation, dir string, timeoutSec, workers int) []*Result {
	out := make([]*Result, len(obs))
	sem := make(chan struct{}, workers)
	var wg sync.WaitGroup
	for i, o := range obs {
		wg.Add(1)
		sem <- struct{}{}
		go func(i int, o *Obligation) {
			defer wg.Done()
			defer func() { <-sem }()
			out[i] = Solve(o, dir, timeoutSec)
		}(i, o)
	}
	wg.Wait()
	return out
}
