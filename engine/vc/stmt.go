package vc

import (
	"fmt"
	"go/ast"
	"go/token"
	"go/types"
	"sort"
)

func (e *Exec) execBlock(st *State, stmts []ast.Stmt) *State {
	for _, s := range stmts {
		if st.Dead() {
			return nil
		}
		st = e.execStmt(st, s)
	}
	return st
}

func (e *Exec) execStmt(st *State, s ast.Stmt) *State {
	if st.Dead() {
		return nil
	}
	e.curStmtPos = s.Pos()
	switch s := s.(type) {
	case *ast.BlockStmt:
		return e.execBlock(st, s.List)
	case *ast.ExprStmt:
		if c, ok := s.X.(*ast.CallExpr); ok {
			e.evalCall(st, c)
		} else {
			e.eval(st, s.X)
		}
		return st
	case *ast.AssignStmt:
		return e.execAssign(st, s)
	case *ast.IncDecStmt:
		l := e.lvalOf(st, s.X)
		v := l.get(st)
		var r Term
		if s.Tok == token.INC {
			r = Add(v, Int(1))
		} else {
			r = Sub(v, Int(1))
		}
		l.set(st, e.arith(st, s, r, e.typeOf(s.X)))
		return st
	case *ast.DeclStmt:
		gd, ok := s.Decl.(*ast.GenDecl)
		if !ok || gd.Tok != token.VAR {
			return st
		}
		for _, sp := range gd.Specs {
			vs := sp.(*ast.ValueSpec)
			if len(vs.Values) == 1 && len(vs.Names) > 1 {
				rs := e.evalMulti(st, vs.Values[0], len(vs.Names))
				for i, n := range vs.Names {
					e.declare(st, n, rs[i])
				}
				continue
			}
			for i, n := range vs.Names {
				obj := e.objOf(n)
				if obj == nil {
					continue
				}
				var v Term
				if i < len(vs.Values) {
					v = e.evalTo(st, vs.Values[i], obj.Type())
				} else {
					v = e.S.Zero(e.S.SortOf(obj.Type()))
				}
				e.declare(st, n, v)
			}
		}
		return st
	case *ast.IfStmt:
		if s.Init != nil {
			st = e.execStmt(st, s.Init)
			if st.Dead() {
				return nil
			}
		}
		c := e.eval(st, s.Cond)
		c = e.Ctx.Define("c", c)
		thenSt := e.withPC(st, c)
		elseSt := e.withPC(st, Not(c))
		thenOut := e.execBlock(thenSt, s.Body.List)
		var elseOut *State = elseSt
		if s.Else != nil {
			elseOut = e.execStmt(elseSt, s.Else)
		}
		return e.Merge(thenOut, elseOut)
	case *ast.ReturnStmt:
		return e.execReturn(st, s)
	case *ast.ForStmt:
		return e.execFor(st, s, e.fr().labels[s])
	case *ast.RangeStmt:
		return e.execRange(st, s, e.fr().labels[s])
	case *ast.LabeledStmt:
		e.fr().labels[s.Stmt] = s.Label.Name
		return e.execStmt(st, s.Stmt)
	case *ast.BranchStmt:
		label := ""
		if s.Label != nil {
			label = s.Label.Name
		}
		switch s.Tok {
		case token.BREAK:
			e.fr().breaks[label] = append(e.fr().breaks[label], st)
			return nil
		case token.CONTINUE:
			e.fr().conts[label] = append(e.fr().conts[label], st)
			return nil
		}
		e.unsupported(s.Pos(), "branch %s", s.Tok)
		return nil
	case *ast.SwitchStmt:
		return e.execSwitch(st, s)
	case *ast.TypeSwitchStmt:
		return e.execTypeSwitch(st, s)
	case *ast.DeferStmt:
		d := deferred{call: s.Call}
		if _, isLit := s.Call.Fun.(*ast.FuncLit); !isLit {
			for _, a := range s.Call.Args {
				d.args = append(d.args, e.eval(st, a))
			}
		}
		if e.fr().loopDepth == 0 {
			d.armed = e.newPseudo("armed", types.Typ[types.Bool])
			if e.armedVar == nil {
				e.armedVar = map[types.Object]bool{}
			}
			e.armedVar[d.armed] = true
			st.Vars[d.armed] = True
		}
		e.fr().defers = append(e.fr().defers, d)
		return st
	case *ast.GoStmt:
		e.Assumed["goroutine launches are skipped (single-threaded model)"] = true
		return st
	case *ast.SendStmt:
		v := e.eval(st, s.Value)
		e.Assumed["channel sends are skipped (single-threaded model)"] = true
		if len(e.frames) == 1 && e.spec == 0 {
			if o := e.calledObj["chan<-"]; o != nil {
				st.Vars[o] = True
			}
		}
		// `call chan<- assert[l] e`: e is checked at every send statement of the verified function;
		// __arg(0) is the value sent
		if len(e.frames) == 1 && e.spec == 0 && e.Fn.C != nil {
			for _, ca := range e.Fn.C.Calls {
				if ca.Callee != "chan<-" {
					continue
				}
				e.callAsserted[ca] = true
				savedA := e.callArgs
				e.callArgs = []Term{v}
				e.sendValue = s.Value
				t := e.evalSpec(st, ca.Clause)
				e.sendValue = nil
				e.callArgs = savedA
				if ca.Assume {
					e.Assumed["explicit assumption ["+ca.Clause.Label+"] at channel send: "+ca.Clause.Src] = true
					e.assume(st, t)
					continue
				}
				e.Ctx.AddObligation(e.Fn.FullName(), "assert", fmt.Sprintf("%s/assert/%s", e.fnName(), ca.Clause.Label), st.PC, t, e.pos(s.Pos()))
			}
		}
		return st
	case *ast.SelectStmt:
		return e.execSelect(st, s)
	case *ast.EmptyStmt:
		return st
	}
	e.unsupported(s.Pos(), "statement %T", s)
	return st
}

func (e *Exec) declare(st *State, id *ast.Ident, v Term) {
	if id.Name == "_" {
		return
	}
	obj := e.objOf(id)
	if obj == nil {
		return
	}
	if e.boxed[obj] {
		st.Vars[obj] = e.newCell(st, obj.Type(), v)
		return
	}
	st.Vars[obj] = v
}

// evalMulti evaluates an expression yielding n values (call, map index, type assertion, receive).
func (e *Exec) evalMulti(st *State, x ast.Expr, n int) []Term {
	switch v := x.(type) {
	case *ast.ParenExpr:
		return e.evalMulti(st, v.X, n)
	case *ast.CallExpr:
		rs := e.evalCall(st, v)
		for len(rs) < n {
			rs = append(rs, Int(0))
		}
		return rs
	case *ast.IndexExpr:
		if mt, ok := e.typeOf(v.X).Underlying().(*types.Map); ok && n == 2 {
			val, in := e.mapLookup(st, v, mt)
			return []Term{val, in}
		}
	case *ast.TypeAssertExpr:
		if n == 2 {
			val, ok := e.evalTypeAssert(st, v, true)
			return []Term{val, ok}
		}
	case *ast.UnaryExpr:
		if v.Op == token.ARROW && n == 2 {
			return []Term{e.eval(st, v), e.Ctx.Fresh("recvok", SBool)}
		}
	}
	out := []Term{e.eval(st, x)}
	for len(out) < n {
		out = append(out, Int(0))
	}
	return out
}

func (e *Exec) execAssign(st *State, s *ast.AssignStmt) *State {
	if s.Tok != token.ASSIGN && s.Tok != token.DEFINE {
		// op-assign
		l := e.lvalOf(st, s.Lhs[0])
		bin := &ast.BinaryExpr{X: s.Lhs[0], Y: s.Rhs[0], OpPos: s.TokPos}
		switch s.Tok {
		case token.ADD_ASSIGN:
			bin.Op = token.ADD
		case token.SUB_ASSIGN:
			bin.Op = token.SUB
		case token.MUL_ASSIGN:
			bin.Op = token.MUL
		case token.QUO_ASSIGN:
			bin.Op = token.QUO
		case token.REM_ASSIGN:
			bin.Op = token.REM
		default:
			e.unsupported(s.Pos(), "assignment operator %s", s.Tok)
			return st
		}
		a := l.get(st)
		b := e.eval(st, s.Rhs[0])
		lt := e.typeOf(s.Lhs[0])
		var r Term
		switch bin.Op {
		case token.ADD:
			if a.Sort == SStr {
				r = app(SStr, "str_cat", a, b)
			} else {
				r = e.arith(st, s, Add(a, b), lt)
			}
		case token.SUB:
			r = e.arith(st, s, Sub(a, b), lt)
		case token.MUL:
			r = e.arith(st, s, Mul(a, b), lt)
		case token.QUO:
			e.safe(st, "div", s, Not(Eq(b, Int(0))))
			r = e.tdiv(a, b)
		case token.REM:
			e.safe(st, "div", s, Not(Eq(b, Int(0))))
			r = e.tmod(a, b)
		}
		l.set(st, r)
		return st
	}
	var vals []Term
	if len(s.Lhs) > 1 && len(s.Rhs) == 1 {
		vals = e.evalMulti(st, s.Rhs[0], len(s.Lhs))
		// convert to target types where known
	} else {
		for i, r := range s.Rhs {
			var target types.Type
			if id, ok := s.Lhs[i].(*ast.Ident); ok {
				if o := e.objOf(id); o != nil {
					target = o.Type()
				}
			} else {
				target = e.typeOf(s.Lhs[i])
			}
			vals = append(vals, e.evalTo(st, r, target))
		}
	}
	if st.Dead() {
		return nil
	}
	if s.Tok == token.DEFINE {
		for i, l := range s.Lhs {
			id := l.(*ast.Ident)
			if id.Name == "_" {
				continue
			}
			fi := e.fr().info
			if fi.Defs[id] != nil || (e.cinfo != nil && e.cinfo.Defs[id] != nil) || e.isDef(id) {
				e.declare(st, id, vals[i])
			} else {
				e.lvalOf(st, id).set(st, vals[i])
			}
		}
		return st
	}
	// evaluate all locations first (Go evaluates index/pointer operands before assigning)
	locs := make([]lval, len(s.Lhs))
	for i, l := range s.Lhs {
		locs[i] = e.lvalOf(st, l)
	}
	for i, l := range locs {
		l.set(st, vals[i])
	}
	return st
}

func (e *Exec) isDef(id *ast.Ident) bool {
	for _, p := range e.P.Pkgs {
		if p.TypesInfo.Defs[id] != nil {
			return true
		}
	}
	return false
}

func (e *Exec) execReturn(st *State, s *ast.ReturnStmt) *State {
	f := e.fr()
	if len(s.Results) == 1 && len(f.results) > 1 {
		rs := e.evalMulti(st, s.Results[0], len(f.results))
		for i, r := range f.results {
			st.Vars[r] = e.convertTo(st, rs[i], nil, r.Type())
		}
	} else if len(s.Results) > 0 {
		vals := make([]Term, len(s.Results))
		for i, r := range s.Results {
			vals[i] = e.evalTo(st, r, f.results[i].Type())
		}
		for i, r := range f.results {
			if e.boxed[r] {
				varLval{e, r}.set(st, vals[i])
			} else {
				st.Vars[r] = vals[i]
			}
		}
	}
	if st.Dead() {
		return nil
	}
	f.rets = append(f.rets, st)
	return nil
}

func (e *Exec) execSwitch(st *State, s *ast.SwitchStmt) *State {
	if s.Init != nil {
		st = e.execStmt(st, s.Init)
	}
	var tag Term
	hasTag := s.Tag != nil
	if hasTag {
		tag = e.eval(st, s.Tag)
	}
	var outs []*State
	rest := st
	var def *ast.CaseClause
	savedBreaks := e.fr().breaks[""]
	e.fr().breaks[""] = nil
	for _, c := range s.Body.List {
		cc := c.(*ast.CaseClause)
		if cc.List == nil {
			def = cc
			continue
		}
		var conds []Term
		for _, x := range cc.List {
			if hasTag {
				v := e.evalTo(rest, x, e.typeOf(s.Tag))
				conds = append(conds, Eq(tag, v))
			} else {
				conds = append(conds, e.eval(rest, x))
			}
		}
		cond := e.Ctx.Define("sw", Or(conds...))
		body := e.withPC(rest, cond)
		outs = append(outs, e.execBlock(body, cc.Body))
		rest = e.withPC(rest, Not(cond))
	}
	if def != nil {
		outs = append(outs, e.execBlock(rest, def.Body))
	} else {
		outs = append(outs, rest)
	}
	outs = append(outs, e.fr().breaks[""]...)
	e.fr().breaks[""] = savedBreaks
	return e.Merge(outs...)
}

func (e *Exec) execTypeSwitch(st *State, s *ast.TypeSwitchStmt) *State {
	if s.Init != nil {
		st = e.execStmt(st, s.Init)
	}
	var x ast.Expr
	var bind *ast.Ident
	switch a := s.Assign.(type) {
	case *ast.AssignStmt:
		bind = a.Lhs[0].(*ast.Ident)
		x = a.Rhs[0].(*ast.TypeAssertExpr).X
	case *ast.ExprStmt:
		x = a.X.(*ast.TypeAssertExpr).X
	}
	v := e.eval(st, x)
	e.declDyn()
	var outs []*State
	rest := st
	var def *ast.CaseClause
	savedBreaks := e.fr().breaks[""]
	e.fr().breaks[""] = nil
	for _, c := range s.Body.List {
		cc := c.(*ast.CaseClause)
		if cc.List == nil {
			def = cc
			continue
		}
		var conds []Term
		var single types.Type
		for _, tx := range cc.List {
			if isNilExpr(e, tx) {
				conds = append(conds, Eq(v, Int(0)))
				continue
			}
			T := e.typeOf(tx)
			single = T
			if isInterface(T) {
				conds = append(conds, e.Ctx.Fresh("implements", SBool))
			} else {
				conds = append(conds, And(Not(Eq(v, Int(0))), Eq(app(SInt, "dyntype", v), Int(int64(e.dynID(T))))))
			}
		}
		cond := e.Ctx.Define("tsw", Or(conds...))
		body := e.withPC(rest, cond)
		if bind != nil {
			if obj := e.fr().info.Implicits[cc]; obj != nil {
				if len(cc.List) == 1 && single != nil && !isInterface(single) {
					switch single.Underlying().(type) {
					case *types.Pointer, *types.Map, *types.Chan, *types.Signature:
						body.Vars[obj] = v
					default:
						body.Vars[obj] = app(e.S.SortOf(single), e.unboxFn(single), v)
					}
				} else {
					body.Vars[obj] = v
				}
			}
		}
		outs = append(outs, e.execBlock(body, cc.Body))
		rest = e.withPC(rest, Not(cond))
	}
	if def != nil {
		if bind != nil {
			if obj := e.fr().info.Implicits[def]; obj != nil {
				rest.Vars[obj] = v
			}
		}
		outs = append(outs, e.execBlock(rest, def.Body))
	} else {
		outs = append(outs, rest)
	}
	outs = append(outs, e.fr().breaks[""]...)
	e.fr().breaks[""] = savedBreaks
	return e.Merge(outs...)
}

func (e *Exec) execSelect(st *State, s *ast.SelectStmt) *State {
	// non-deterministic choice among the clauses
	var outs []*State
	savedBreaks := e.fr().breaks[""]
	e.fr().breaks[""] = nil
	rest := st
	for _, c := range s.Body.List {
		cc := c.(*ast.CommClause)
		ch := e.Ctx.Fresh("select", SBool)
		body := e.withPC(rest, ch)
		if cc.Comm != nil {
			body = e.execStmt(body, cc.Comm)
		}
		outs = append(outs, e.execBlock(body, cc.Body))
		rest = e.withPC(rest, Not(ch))
	}
	// if no default clause the select blocks until one case fires: the "none" path is infeasible
	hasDefault := false
	for _, c := range s.Body.List {
		if c.(*ast.CommClause).Comm == nil {
			hasDefault = true
		}
	}
	_ = hasDefault
	outs = append(outs, e.fr().breaks[""]...)
	e.fr().breaks[""] = savedBreaks
	e.Assumed["select is a non-deterministic choice among its clauses"] = true
	return e.Merge(outs...)
}

// ---------------------------------------------------------------------------------------------
// loops

// assignedVars collects the variables assigned in n (declared outside or inside; caller filters).
func (e *Exec) assignedVars(n ast.Node, out map[types.Object]bool) {
	ast.Inspect(n, func(x ast.Node) bool {
		switch s := x.(type) {
		case *ast.AssignStmt:
			for _, l := range s.Lhs {
				e.rootVar(l, out)
			}
		case *ast.IncDecStmt:
			e.rootVar(s.X, out)
		case *ast.RangeStmt:
			if s.Key != nil {
				e.rootVar(s.Key, out)
			}
			if s.Value != nil {
				e.rootVar(s.Value, out)
			}
		case *ast.CallExpr:
			// call of a local closure: include what its body assigns
			if id, ok := s.Fun.(*ast.Ident); ok {
				if lit := e.closureLit(id); lit != nil {
					e.assignedVars(lit.Body, out)
				}
			}
			// method call with pointer receiver on an addressable struct variable modifies it
			if sel, ok := s.Fun.(*ast.SelectorExpr); ok {
				if sn := e.selectionOf(sel); sn != nil && sn.Kind() == types.MethodVal {
					if !isPointer(e.typeOf(sel.X)) {
						if sig, ok := sn.Obj().Type().(*types.Signature); ok && sig.Recv() != nil && isPointer(sig.Recv().Type()) {
							e.rootVar(sel.X, out)
						}
					}
				}
			}
		case *ast.UnaryExpr:
			if s.Op == token.AND {
				e.rootVar(s.X, out)
			}
		}
		return true
	})
}

// rootVar finds the variable whose stored value changes when lhs is assigned (value-semantics roots).
func (e *Exec) rootVar(lhs ast.Expr, out map[types.Object]bool) {
	switch x := lhs.(type) {
	case *ast.Ident:
		if o := e.objOf(x); o != nil {
			if _, ok := o.(*types.Var); ok {
				out[o] = true
			}
		}
	case *ast.ParenExpr:
		e.rootVar(x.X, out)
	case *ast.SelectorExpr:
		if t := e.typeOf(x.X); t != nil && !isPointer(t) {
			e.rootVar(x.X, out)
		}
	case *ast.IndexExpr:
		if t := e.typeOf(x.X); t != nil {
			switch t.Underlying().(type) {
			case *types.Slice, *types.Array:
				e.rootVar(x.X, out)
			}
		}
	}
}

// closureLit returns the function literal bound once to local variable id, if any.
func (e *Exec) closureLit(id *ast.Ident) *ast.FuncLit {
	obj := e.objOf(id)
	if obj == nil {
		return nil
	}
	return e.closures[obj]
}

type loopCtx struct {
	ord    int
	spec   *LoopSpec
	head   *State // havocked state at loop head (before guard)
	isTop  bool
	name   string
}

func (e *Exec) nextLoop(node ast.Node) (int, *LoopSpec) {
	f := e.fr()
	f.loopOrd++
	if st, ok := node.(ast.Stmt); ok && e.Fn.C != nil && (len(e.frames) == 1 || e.fr().closure) {
		if ord, ok := e.loopOrdOf[st]; ok {
			if ls := e.Fn.C.Loops[ord]; ls != nil {
				e.loopsUsed[ord] = true
				return ord, ls
			}
			return ord, &LoopSpec{}
		}
	}
	return 1000 + f.loopOrd, &LoopSpec{}
}

// havocLoop returns the loop-head state: everything the loop may modify is unknown.
func (e *Exec) havocLoop(st *State, body ast.Node, extra []ast.Node, spec *LoopSpec) *State {
	e.lastGiven = nil
	h := st.Clone()
	vars := map[types.Object]bool{}
	e.assignedVars(body, vars)
	for _, x := range extra {
		if x != nil {
			e.assignedVars(x, vars)
		}
	}
	var objs []types.Object
	for o := range vars {
		if _, ok := h.Vars[o]; ok {
			objs = append(objs, o)
		}
	}
	sort.Slice(objs, func(i, j int) bool { return objs[i].Pos() < objs[j].Pos() || (objs[i].Pos() == objs[j].Pos() && objs[i].Name() < objs[j].Name()) })
	for _, o := range objs {
		if e.boxed[o] {
			continue // the cell reference is constant; its content is heap
		}
		v := e.Ctx.Fresh("l_"+o.Name(), h.Vars[o].Sort)
		h.Vars[o] = v
		e.assumeType(h, v, o.Type())
	}
	keys := e.modKeysOf(body, extra)
	var given map[string][]designator
	if spec != nil && spec.ModGiven {
		keys = map[string]bool{}
		given = map[string][]designator{}
		sc, err := e.P.scopeFor(e.Fn.C)
		if err == nil {
			for _, d := range spec.Modifies {
				for _, dg := range e.designators(st, e.Fn.C, d, sc) {
					keys[dg.key] = true
					given[dg.key] = append(given[dg.key], dg)
				}
			}
		}
		// what the body's own statements write (x.f = …, m[k] = …, *p = …; not through calls) belongs to the loop's
		// frame whether it is listed or not: havocked as a whole, no loop-frame obligation. An explicit frame is there to
		// narrow the effects of CALLS; a new local map or field written in the body must neither be assumed unchanged
		// (the rest of the proof would be conditional on a failed obligation, seed C09-7) nor raise an alarm of its own.
		dw := e.directWrites(body, extra)
		var dks []string
		for k := range dw {
			dks = append(dks, k)
		}
		sort.Strings(dks)
		for _, k := range dks {
			ws := dw[k]
			if len(ws) == 0 || keys[k] {
				continue
			}
			keys[k] = true
			for _, w := range ws {
				// through a base expression the loop does not change: only that object (a local map keeps every other
				// map of its type, in particular the caller's, out of the havoc); otherwise the whole key
				if w.base != nil && e.stableExpr(w.base, vars, keys) {
					e.spec++
					ref := e.eval(st.Clone(), w.base)
					e.spec--
					given[k] = append(given[k], designator{key: k, ref: ref})
				} else {
					given[k] = append(given[k], designator{key: k, whole: true})
				}
			}
		}
	}
	var ks []string
	if keys["*"] {
		for k := range e.keySort {
			ks = append(ks, k)
		}
		h.HavocAll = true
		h.HavocID = e.nextHavocID()
	} else {
		for k := range keys {
			ks = append(ks, k)
		}
	}
	sort.Strings(ks)
	// targeted havoc: a key written only by direct statements through loop-invariant base expressions
	// changes only at those objects
	var direct map[string][]loopWrite
	var calleeKeys map[string]bool
	if !(spec != nil && spec.ModGiven) && !keys["*"] {
		direct = e.directWrites(body, extra)
		calleeKeys = e.calleeKeysOf(body, extra)
	}
	for _, k := range ks {
		if !e.ensureKeySort(k) {
			if h.Unknown == nil {
				h.Unknown = map[string]int{}
			}
			h.Unknown[k] = e.nextHavocID()
			continue
		}
		e.touched[k] = true
		if given != nil {
			whole := false
			cur := e.heapGet(st, k)
			for _, dg := range given[k] {
				if dg.whole {
					whole = true
					break
				}
				cur = Store(cur, dg.ref, e.Ctx.Fresh("lhv", arrayElem(e.keySort[k])))
			}
			if !whole {
				h.Heap[k] = e.Ctx.Define("lht", cur)
				continue
			}
		}
		if direct != nil && !calleeKeys[k] && !calleeKeys["*"] && len(direct[k]) > 0 {
			ok := true
			for _, w := range direct[k] {
				if w.base == nil || !e.stableExpr(w.base, vars, keys) {
					ok = false
				}
			}
			if ok {
				cur := e.heapGet(st, k)
				e.spec++
				for _, w := range direct[k] {
					ref := e.eval(st.Clone(), w.base)
					cur = Store(cur, ref, e.Ctx.Fresh("lhv", arrayElem(e.keySort[k])))
				}
				e.spec--
				h.Heap[k] = e.Ctx.Define("lht", cur)
				continue
			}
		}
		h.Heap[k] = e.Ctx.Fresh("lh", e.keySort[k])
	}
	e.havocMemo(h)
	na := e.Ctx.Fresh("alloc", SInt)
	e.Ctx.Assume(h.PC, Ge(na, st.Alloc))
	h.Alloc = na
	e.lastGiven = given
	return h
}

// loopFrame: with an explicit `loop N modifies`, the body must not write anything else.
func (e *Exec) loopFrame(head, end *State, ord int, given map[string][]designator, pos token.Pos) {
	if given == nil || end.Dead() {
		return
	}
	if _, all := given["*"]; all {
		return
	}
	var keys []string
	for k := range e.keySort {
		keys = append(keys, k)
	}
	sort.Strings(keys)
	for _, k := range keys {
		whole := false
		for _, d := range given[k] {
			if d.whole {
				whole = true
			}
		}
		if whole || e.P.Memo[k] != nil || e.privateElsewhere(k) {
			continue
		}
		if end.HavocAll && !head.HavocAll {
			e.Ctx.AddObligation(e.Fn.FullName(), "frame", fmt.Sprintf("%s/loop-frame/loop%d/%s", e.fnName(), ord, frameLabel(k)), end.PC, False, e.pos(pos))
			continue
		}
		_, inEnd := end.Heap[k]
		_, inHead := head.Heap[k]
		if !inEnd && !inHead && end.Unknown[k] == 0 {
			continue
		}
		now, before := e.heapGet(end, k), e.heapGet(head, k)
		if now.S == before.S {
			continue
		}
		o := e.Ctx.Fresh("lfo", SInt)
		hyp := []Term{Ge(o, Int(0)), Le(o, head.Alloc)}
		for _, d := range given[k] {
			hyp = append(hyp, Not(Eq(o, d.ref)))
		}
		e.Ctx.AddObligation(e.Fn.FullName(), "frame", fmt.Sprintf("%s/loop-frame/loop%d/%s", e.fnName(), ord, frameLabel(k)), end.PC, Implies(And(hyp...), Eq(Select(now, o), Select(before, o))), e.pos(pos))
	}
}

func (e *Exec) checkInvariants(st *State, ord int, spec *LoopSpec, kind string, pos token.Pos) {
	for _, inv := range spec.Invariants {
		t := e.evalSpec(st, inv)
		name := fmt.Sprintf("%s/%s/loop%d/%s", e.fnName(), kind, ord, inv.Label)
		o := e.Ctx.AddObligation(e.Fn.FullName(), kind, name, st.PC, t, e.pos(pos))
		o.SetParts(e.evalSpecParts(st, inv))
	}
}

func (e *Exec) assumeInvariants(st *State, spec *LoopSpec) {
	for _, inv := range spec.Invariants {
		t := e.evalSpec(st, inv)
		e.assume(st, t)
	}
}

func (e *Exec) execFor(st *State, s *ast.ForStmt, label string) *State {
	if s.Init != nil {
		st = e.execStmt(st, s.Init)
		if st.Dead() {
			return nil
		}
	}
	ord, spec := e.nextLoop(s)
	// ghost counter of completed iterations (__iter()): 0 at entry, unknown but non-negative at the head, one more
	// when the body (and the post statement) has run
	cntObj := e.newPseudo("iter", types.Typ[types.Int])
	st.Vars[cntObj] = Int(0)
	e.vis = append(e.vis, visInfo{ord: ord, cnt: cntObj})
	defer func() { e.vis = e.vis[:len(e.vis)-1] }()
	e.checkInvariants(st, ord, spec, "inv-init", s.Pos())
	var extra []ast.Node
	if s.Post != nil {
		extra = append(extra, s.Post)
	}
	if s.Cond != nil {
		extra = append(extra, s.Cond)
	}
	head := e.havocLoop(st, s.Body, extra, spec)
	given := e.lastGiven
	iterC := e.Ctx.Fresh("iter", SInt)
	head.Vars[cntObj] = iterC
	e.assume(head, Ge(iterC, Int(0)))
	e.assumeInvariants(head, spec)
	var dec0 Term
	if spec.Decreases != nil {
		dec0 = e.evalSpec(head, spec.Decreases)
	}
	cond := True
	if s.Cond != nil {
		cond = e.Ctx.Define("lc", e.eval(head, s.Cond))
	}
	f := e.fr()
	savedB, savedC := f.breaks[""], f.conts[""]
	var savedLB, savedLC []*State
	f.breaks[""], f.conts[""] = nil, nil
	if label != "" {
		savedLB, savedLC = f.breaks[label], f.conts[label]
		f.breaks[label], f.conts[label] = nil, nil
	}
	body := e.withPC(head, cond)
	e.canary(body, fmt.Sprintf("loop%d-body", ord), s.Body.Pos())
	e.fr().loopDepth++
	out := e.execBlock(body, s.Body.List)
	e.fr().loopDepth--
	conts := append([]*State{out}, f.conts[""]...)
	if label != "" {
		conts = append(conts, f.conts[label]...)
	}
	end := e.Merge(conts...)
	if !end.Dead() {
		if s.Post != nil {
			end = e.execStmt(end, s.Post)
		}
		end.Vars[cntObj] = Add(iterC, Int(1))
		e.checkInvariants(end, ord, spec, "inv-pres", s.Pos())
		e.loopFrame(head, end, ord, given, s.Pos())
		if spec.Decreases != nil {
			d1 := e.evalSpec(end, spec.Decreases)
			e.Ctx.AddObligation(e.Fn.FullName(), "decreases", fmt.Sprintf("%s/decreases/loop%d", e.fnName(), ord), end.PC, And(Ge(dec0, Int(0)), Lt(d1, dec0)), e.pos(s.Pos()))
		}
	}
	exits := []*State{e.withPC(head, Not(cond))}
	exits = append(exits, f.breaks[""]...)
	if label != "" {
		exits = append(exits, f.breaks[label]...)
		f.breaks[label], f.conts[label] = savedLB, savedLC
	}
	f.breaks[""], f.conts[""] = savedB, savedC
	return e.Merge(exits...)
}

func (e *Exec) execRange(st *State, s *ast.RangeStmt, label string) *State {
	xt := e.typeOf(s.X)
	switch u := xt.Underlying().(type) {
	case *types.Map:
		return e.execRangeMap(st, s, label, u)
	case *types.Slice, *types.Array, *types.Basic:
		return e.execRangeSeq(st, s, label, xt)
	}
	e.unsupported(s.Pos(), "range over %s", xt)
	return st
}

func (e *Exec) bindRangeVar(st *State, x ast.Expr, define bool, v Term) {
	if x == nil {
		return
	}
	id, ok := x.(*ast.Ident)
	if ok && id.Name == "_" {
		return
	}
	if define && ok {
		e.declare(st, id, v)
		return
	}
	e.lvalOf(st, x).set(st, v)
}

func (e *Exec) execRangeSeq(st *State, s *ast.RangeStmt, label string, xt types.Type) *State {
	seq := e.eval(st, s.X) // evaluated once
	var ln Term
	elemAt := func(i Term) Term { return Int(0) }
	var elemT types.Type
	switch {
	case seq.Sort == SBytes:
		ln = app(SInt, "bytes_len", seq)
		elemAt = func(i Term) Term { return app(SInt, "bytes_at", seq, i) }
		elemT = types.Typ[types.Uint8]
	case seq.Sort == SStr:
		e.unsupported(s.Pos(), "range over string")
		return st
	case len(seq.Sort) > 3 && seq.Sort[:3] == "Sl_":
		ln = e.S.SlLen(seq)
		elemAt = func(i Term) Term { return Select(e.S.SlArr(seq), i) }
		elemT = xt.Underlying().(*types.Slice).Elem()
	default:
		if at, ok := xt.Underlying().(*types.Array); ok {
			ln = Int(at.Len())
			elemAt = func(i Term) Term { return Select(seq, i) }
			elemT = at.Elem()
		} else {
			e.unsupported(s.Pos(), "range over %s", seq.Sort)
			return st
		}
	}
	ln = e.Ctx.Define("rlen", ln)
	e.Ctx.Assume(st.PC, Ge(ln, Int(0)))
	ord, spec := e.nextLoop(s)
	idxObj := e.newPseudo("idx", types.Typ[types.Int])
	define := s.Tok == token.DEFINE
	st.Vars[idxObj] = Int(0)
	e.vis = append(e.vis, visInfo{ord: ord, iter: idxObj, seq: seq})
	defer func() { e.vis = e.vis[:len(e.vis)-1] }()
	// at the loop head the key variable equals the next index
	e.bindRangeVar(st, s.Key, define, Int(0))
	if s.Value != nil {
		if id, ok := s.Value.(*ast.Ident); ok && define && id.Name != "_" {
			e.declare(st, id, e.S.Zero(e.S.SortOf(elemT)))
		}
	}
	e.checkInvariants(st, ord, spec, "inv-init", s.Pos())
	head := e.havocLoop(st, s.Body, nil, spec)
	given := e.lastGiven
	idx := e.Ctx.Fresh("idx", SInt)
	head.Vars[idxObj] = idx
	e.assume(head, And(Ge(idx, Int(0)), Le(idx, ln)))
	e.bindRangeVar(head, s.Key, define, idx)
	if s.Value != nil {
		if id, ok := s.Value.(*ast.Ident); ok && id.Name != "_" {
			if o := e.objOf(id); o != nil && !e.boxed[o] {
				head.Vars[o] = e.Ctx.Fresh("rv_"+id.Name, e.S.SortOf(elemT))
			}
		}
	}
	e.assumeInvariants(head, spec)
	cond := Lt(idx, ln)
	f := e.fr()
	savedB, savedC := f.breaks[""], f.conts[""]
	var savedLB, savedLC []*State
	f.breaks[""], f.conts[""] = nil, nil
	if label != "" {
		savedLB, savedLC = f.breaks[label], f.conts[label]
		f.breaks[label], f.conts[label] = nil, nil
	}
	body := e.withPC(head, cond)
	if s.Value != nil {
		v := e.Ctx.Define("rv", elemAt(idx))
		e.assumeType(body, v, elemT)
		e.bindRangeVar(body, s.Value, define, v)
	}
	e.canary(body, fmt.Sprintf("loop%d-body", ord), s.Body.Pos())
	e.fr().loopDepth++
	out := e.execBlock(body, s.Body.List)
	e.fr().loopDepth--
	conts := append([]*State{out}, f.conts[""]...)
	if label != "" {
		conts = append(conts, f.conts[label]...)
	}
	end := e.Merge(conts...)
	if !end.Dead() {
		next := Add(idx, Int(1))
		end.Vars[idxObj] = next
		e.bindRangeVar(end, s.Key, define, next)
		e.checkInvariants(end, ord, spec, "inv-pres", s.Pos())
		e.loopFrame(head, end, ord, given, s.Pos())
	}
	exits := []*State{e.withPC(head, Not(cond))}
	exits = append(exits, f.breaks[""]...)
	if label != "" {
		exits = append(exits, f.breaks[label]...)
		f.breaks[label], f.conts[label] = savedLB, savedLC
	}
	f.breaks[""], f.conts[""] = savedB, savedC
	return e.Merge(exits...)
}

func (e *Exec) execRangeMap(st *State, s *ast.RangeStmt, label string, mt *types.Map) *State {
	m := e.eval(st, s.X)
	mk := e.mapKey(mt)
	ks := e.S.SortOf(mt.Key())
	ord, spec := e.nextLoop(s)
	visObj := e.newPseudo("vis", nil)
	cntObj := e.newPseudo("iter", types.Typ[types.Int])
	define := s.Tok == token.DEFINE
	st.Vars[visObj] = e.S.ConstArray(ks, SBool, False)
	st.Vars[cntObj] = Int(0)
	len0 := e.Ctx.Define("maplen0", Ite(Eq(m, Int(0)), Int(0), Select(e.heapGet(st, mk.ln), m)))
	e.vis = append(e.vis, visInfo{ord: ord, vis: visObj, ksort: ks, cnt: cntObj})
	defer func() { e.vis = e.vis[:len(e.vis)-1] }()
	e.checkInvariants(st, ord, spec, "inv-init", s.Pos())
	head := e.havocLoop(st, s.Body, nil, spec)
	given := e.lastGiven
	vis := e.Ctx.Fresh("vis", ArraySort(ks, SBool))
	head.Vars[visObj] = vis
	iter := e.Ctx.Fresh("iter", SInt)
	head.Vars[cntObj] = iter
	e.assume(head, Ge(iter, Int(0)))
	e.assumeInvariants(head, spec)
	// a map that the loop does not modify is visited exactly len(m) times
	mapStable := true
	{
		mod := e.modKeysOf(s.Body, nil)
		if mod["*"] || mod[mk.dom] || mod[mk.ln] {
			mapStable = false
		}
	}
	dom := func(h *State) Term { return Select(e.heapGet(h, mk.dom), m) }
	// next key: some key of the current domain that was not visited
	k := e.Ctx.Fresh("rk", ks)
	hasNext := e.Ctx.Fresh("hasnext", SBool)
	kv := "k"
	e.Ctx.Assume(head.PC, Implies(Not(hasNext), Term{fmt.Sprintf("(forall ((%s %s)) (! (=> (select %s %s) (select %s %s)) :pattern ((select %s %s))))", kv, ks, dom(head).S, kv, vis.S, kv, vis.S, kv), SBool}))
	e.Ctx.Assume(head.PC, Implies(hasNext, And(Not(Eq(m, Int(0))), Select(dom(head), k), Not(Select(vis, k)))))
	if mapStable {
		e.Ctx.Assume(head.PC, And(Implies(hasNext, Lt(iter, len0)), Implies(Not(hasNext), Eq(iter, len0))))
		// the visited keys are keys of the (unchanged) map; when the iteration ends they are all of them
		e.Ctx.Assume(head.PC, Term{fmt.Sprintf("(forall ((%s %s)) (! (=> (select %s %s) (select %s %s)) :pattern ((select %s %s))))", kv, ks, vis.S, kv, dom(head).S, kv, vis.S, kv), SBool})
		e.Ctx.Assume(head.PC, Implies(Not(hasNext), Eq(vis, dom(head))))
		e.Assumed["range over a map that the loop body does not modify runs exactly len(map) iterations"] = true
	}
	f := e.fr()
	savedB, savedC := f.breaks[""], f.conts[""]
	var savedLB, savedLC []*State
	f.breaks[""], f.conts[""] = nil, nil
	if label != "" {
		savedLB, savedLC = f.breaks[label], f.conts[label]
		f.breaks[label], f.conts[label] = nil, nil
	}
	body := e.withPC(head, hasNext)
	e.assumeType(body, k, mt.Key())
	e.bindRangeVar(body, s.Key, define, k)
	if s.Value != nil {
		v := e.Ctx.Define("rmv", Select(Select(e.heapGet(body, mk.val), m), k))
		e.assumeType(body, v, mt.Elem())
		e.bindRangeVar(body, s.Value, define, v)
	}
	body.Vars[visObj] = Store(vis, k, True)
	body.Vars[cntObj] = Add(iter, Int(1))
	e.canary(body, fmt.Sprintf("loop%d-body", ord), s.Body.Pos())
	e.fr().loopDepth++
	out := e.execBlock(body, s.Body.List)
	e.fr().loopDepth--
	conts := append([]*State{out}, f.conts[""]...)
	if label != "" {
		conts = append(conts, f.conts[label]...)
	}
	end := e.Merge(conts...)
	if !end.Dead() {
		e.checkInvariants(end, ord, spec, "inv-pres", s.Pos())
		e.loopFrame(head, end, ord, given, s.Pos())
	}
	exits := []*State{e.withPC(head, Not(hasNext))}
	exits = append(exits, f.breaks[""]...)
	if label != "" {
		exits = append(exits, f.breaks[label]...)
		f.breaks[label], f.conts[label] = savedLB, savedLC
	}
	f.breaks[""], f.conts[""] = savedB, savedC
	return e.Merge(exits...)
}

// canary records a reachability check: "false" must NOT be provable here.
func (e *Exec) canary(st *State, label string, pos token.Pos) {
	if len(e.frames) != 1 || e.spec > 0 {
		return
	}
	o := e.Ctx.AddObligation(e.Fn.FullName(), "vacuity", fmt.Sprintf("%s/vacuity/%s", e.fnName(), label), st.PC, False, e.pos(pos))
	o.MustFail = true
}
