package node

import (
	"testing"

	"github.com/mosaicnetworks/babble/src/crypto/keys"
	hg "github.com/mosaicnetworks/babble/src/hashgraph"
	"github.com/mosaicnetworks/babble/src/peers"
)

// Replay of finding F10 (C08): a fast-forward response that passes every acceptance check (frame hash, peer-set
// hash, block signatures of the frame's own validator set) but whose frame has a nil root, a nil frame event, a
// frame event without core event, a core event without its two parent slots, or - among events with equal
// Lamport timestamps - a signature that does not decode, makes the catching-up node panic inside
// Hashgraph.Reset, after the hashgraph has already been cleared. The sender controls all of these fields.
func f10Attempt(t *testing.T, name string, tamper func(f *hg.Frame)) {
	cores := initConsensusHashgraph(t)
	c := cores[0]
	k, _ := keys.GenerateECDSAKey()
	sender := peers.NewPeer(keys.PublicKeyHex(&k.PublicKey), "sender:1", "sender")
	frame := &hg.Frame{
		Round:    1000,
		Peers:    []*peers.Peer{sender},
		Roots:    map[string]*hg.Root{},
		Events:   []*hg.FrameEvent{},
		PeerSets: map[int][]*peers.Peer{0: {sender}},
	}
	tamper(frame)
	fh, err := frame.Hash()
	if err != nil {
		t.Logf("%s: frame does not hash (%v): not a deliverable response", name, err)
		return
	}
	ph, _ := peers.NewPeerSet(frame.Peers).Hash()
	block := &hg.Block{Body: hg.BlockBody{Index: 999, RoundReceived: 1000, FrameHash: fh, PeersHash: ph}, Signatures: map[string]string{}}
	sig, err := block.Sign(k)
	if err != nil {
		t.Fatal(err)
	}
	block.SetSignature(sig)
	func() {
		defer func() {
			if r := recover(); r != nil {
				t.Errorf("REPRODUCED F10 (%s): core.fastForward panicked: %v", name, r)
			}
		}()
		c.fastForward(block, frame)
	}()
}

func TestVerifReplayF10(t *testing.T) {
	f10Attempt(t, "nil root", func(f *hg.Frame) { f.Roots["X"] = nil })
	f10Attempt(t, "nil frame event", func(f *hg.Frame) { f.Events = []*hg.FrameEvent{nil} })
	f10Attempt(t, "frame event without core", func(f *hg.Frame) { f.Events = []*hg.FrameEvent{{}} })
	f10Attempt(t, "nil event in a root", func(f *hg.Frame) { f.Roots["X"] = &hg.Root{Events: []*hg.FrameEvent{nil}} })
	f10Attempt(t, "core event without parent slots", func(f *hg.Frame) {
		e := hg.NewEvent(nil, nil, nil, []string{}, []byte("a"), 0)
		f.Events = []*hg.FrameEvent{{Core: e, LamportTimestamp: 3}}
	})
	f10Attempt(t, "undecodable signature among equal timestamps", func(f *hg.Frame) {
		e1 := hg.NewEvent(nil, nil, nil, []string{"", ""}, []byte("a"), 0)
		e2 := hg.NewEvent(nil, nil, nil, []string{"", ""}, []byte("b"), 0)
		e1.Signature = "zz"
		e2.Signature = "yy|zz"
		f.Events = []*hg.FrameEvent{{Core: e1, LamportTimestamp: 3}, {Core: e2, LamportTimestamp: 3}}
	})
}
