package vc

import (
	"fmt"
	"go/ast"
	"go/token"
	"go/types"
	"os"
	"path/filepath"
	"regexp"
	"strconv"
)

// Address of a loop variable that outlives the iteration.
//
// `&x.f` is modelled as a pointer to a copy (see evalAddrOf); that is exact as long as nobody writes the original
// afterwards. Before Go 1.22 the variables declared by a `for`/`range` header are ONE variable for the whole loop,
// rewritten at every iteration, so a pointer into such a variable that is still reachable in a later iteration (or
// after the loop) observes later elements. The verifier cannot see that (value semantics), so the pattern is
// reported instead (fail closed): an obligation `…/alias/loop-var-address/<var>#n` that never discharges is emitted
// where a pointer into a loop variable - taken directly (`&r`, `&r.a.b`) or through a body-local that holds such a
// pointer (`p := &r.a; … &p.b`) - is passed to a call, stored outside the loop body, put in a composite literal,
// returned or sent. Reads through such a pointer inside the iteration are not reported.

var reGoDirective = regexp.MustCompile(`(?m)^go\s+(\d+)\.(\d+)`)

// perIterationLoopVars: the module's go directive is 1.22 or later.
func perIterationLoopVars(repo string) bool {
	b, err := os.ReadFile(filepath.Join(repo, "go.mod"))
	if err != nil {
		return false
	}
	m := reGoDirective.FindSubmatch(b)
	if m == nil {
		return false
	}
	maj, _ := strconv.Atoi(string(m[1]))
	min, _ := strconv.Atoi(string(m[2]))
	return maj > 1 || (maj == 1 && min >= 22)
}

func (e *Exec) loopVarAddressObligations(fi *FuncInfo) {
	if fi.Decl == nil || fi.Decl.Body == nil || perIterationLoopVars(e.P.RepoRoot) {
		return
	}
	info := fi.Pkg.TypesInfo
	// loop variables and the body of their loop
	loopBody := map[*types.Var]*ast.BlockStmt{}
	ast.Inspect(fi.Decl.Body, func(n ast.Node) bool {
		switch s := n.(type) {
		case *ast.RangeStmt:
			if s.Tok == token.DEFINE {
				for _, x := range []ast.Expr{s.Key, s.Value} {
					if id, ok := x.(*ast.Ident); ok && id.Name != "_" {
						if v, ok := info.Defs[id].(*types.Var); ok {
							loopBody[v] = s.Body
						}
					}
				}
			}
		case *ast.ForStmt:
			if as, ok := s.Init.(*ast.AssignStmt); ok && as.Tok == token.DEFINE {
				for _, x := range as.Lhs {
					if id, ok := x.(*ast.Ident); ok && id.Name != "_" {
						if v, ok := info.Defs[id].(*types.Var); ok {
							loopBody[v] = s.Body
						}
					}
				}
			}
		}
		return true
	})
	if len(loopBody) == 0 {
		return
	}
	varOf := func(id *ast.Ident) *types.Var {
		if o, ok := info.Uses[id].(*types.Var); ok {
			return o
		}
		if o, ok := info.Defs[id].(*types.Var); ok {
			return o
		}
		return nil
	}
	isPtr := func(x ast.Expr) bool {
		tv, ok := info.Types[x]
		if !ok || tv.Type == nil {
			return false
		}
		_, p := tv.Type.Underlying().(*types.Pointer)
		return p
	}
	// tainted: body-local pointer variables that point into a loop variable -> that loop variable
	tainted := map[*types.Var]*types.Var{}
	// insideVar: the location x denotes lies inside variable v itself (no pointer, slice or map on the way)
	var insideVar func(x ast.Expr) *types.Var
	insideVar = func(x ast.Expr) *types.Var {
		switch v := x.(type) {
		case *ast.ParenExpr:
			return insideVar(v.X)
		case *ast.Ident:
			return varOf(v)
		case *ast.SelectorExpr:
			if isPtr(v.X) {
				return nil
			}
			if _, ok := info.Selections[v]; !ok {
				return nil // package-qualified name
			}
			return insideVar(v.X)
		case *ast.IndexExpr:
			if tv, ok := info.Types[v.X]; ok && tv.Type != nil {
				if _, arr := tv.Type.Underlying().(*types.Array); arr {
					return insideVar(v.X)
				}
			}
		}
		return nil
	}
	// loopPtr: x evaluates to a pointer into a loop variable; returns that variable
	var loopPtr func(x ast.Expr) *types.Var
	loopPtr = func(x ast.Expr) *types.Var {
		switch v := x.(type) {
		case *ast.ParenExpr:
			return loopPtr(v.X)
		case *ast.Ident:
			if o := varOf(v); o != nil {
				return tainted[o]
			}
		case *ast.UnaryExpr:
			if v.Op != token.AND {
				return nil
			}
			if o := insideVar(v.X); o != nil && loopBody[o] != nil {
				return o
			}
			// &p.f.g where p is a tainted pointer: the same object
			y := v.X
			for {
				switch s := y.(type) {
				case *ast.ParenExpr:
					y = s.X
					continue
				case *ast.SelectorExpr:
					if id, ok := s.X.(*ast.Ident); ok && isPtr(s.X) {
						if o := varOf(id); o != nil && tainted[o] != nil {
							return tainted[o]
						}
						return nil
					}
					if isPtr(s.X) {
						return nil
					}
					y = s.X
					continue
				}
				break
			}
		}
		return nil
	}
	within := func(pos token.Pos, b *ast.BlockStmt) bool { return b != nil && b.Lbrace < pos && pos < b.Rbrace }
	// fixpoint over assignments to body-locals
	for changed := true; changed; {
		changed = false
		ast.Inspect(fi.Decl.Body, func(n ast.Node) bool {
			if as, ok := n.(*ast.AssignStmt); ok && len(as.Lhs) == len(as.Rhs) {
				for i, r := range as.Rhs {
					lv := loopPtr(r)
					if lv == nil {
						continue
					}
					if id, ok := as.Lhs[i].(*ast.Ident); ok {
						if o := varOf(id); o != nil && within(o.Pos(), loopBody[lv]) && tainted[o] == nil {
							tainted[o] = lv
							changed = true
						}
					}
				}
			}
			return true
		})
	}
	n := 0
	report := func(pos token.Pos, lv *types.Var) {
		n++
		e.Ctx.AddObligation(e.Fn.FullName(), "alias", fmt.Sprintf("%s/alias/loop-var-address/%s#%d", e.fnName(), lv.Name(), n), True, False, e.pos(pos))
	}
	ast.Inspect(fi.Decl.Body, func(nd ast.Node) bool {
		switch s := nd.(type) {
		case *ast.CallExpr:
			if tv, ok := info.Types[s.Fun]; ok && tv.IsType() {
				return true // conversion
			}
			for _, a := range s.Args {
				if lv := loopPtr(a); lv != nil {
					report(a.Pos(), lv)
				}
			}
		case *ast.AssignStmt:
			if len(s.Lhs) != len(s.Rhs) {
				return true
			}
			for i, r := range s.Rhs {
				lv := loopPtr(r)
				if lv == nil {
					continue
				}
				if id, ok := s.Lhs[i].(*ast.Ident); ok {
					if o := varOf(id); o != nil && within(o.Pos(), loopBody[lv]) {
						continue // body-local: tracked
					}
				}
				report(r.Pos(), lv)
			}
		case *ast.CompositeLit:
			for _, el := range s.Elts {
				x := el
				if kv, ok := el.(*ast.KeyValueExpr); ok {
					x = kv.Value
				}
				if lv := loopPtr(x); lv != nil {
					report(x.Pos(), lv)
				}
			}
		case *ast.ReturnStmt:
			for _, r := range s.Results {
				if lv := loopPtr(r); lv != nil {
					report(r.Pos(), lv)
				}
			}
		case *ast.SendStmt:
			if lv := loopPtr(s.Value); lv != nil {
				report(s.Value.Pos(), lv)
			}
		}
		return true
	})
}
