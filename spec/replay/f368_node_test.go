package node

import (
	"io/ioutil"
	"os"
	"testing"
	"time"

	"github.com/mosaicnetworks/babble/src/common"
	"github.com/mosaicnetworks/babble/src/crypto/keys"
	hg "github.com/mosaicnetworks/babble/src/hashgraph"
	"github.com/mosaicnetworks/babble/src/net"
	"github.com/mosaicnetworks/babble/src/peers"
	"github.com/mosaicnetworks/babble/src/proxy"
)

// Replay of finding F3d (C08): a negative SyncLimit in a SyncRequest made processSyncRequest slice with it.
func TestVerifReplayF3d(t *testing.T) {
	keys, peerSet := initPeers(t, 2)
	nodes := initNodes(keys, peerSet, clonePeerSet(t, peerSet.Peers), 1000, 1000, 5, false, "inmem", 5*time.Millisecond, false, "", t)
	defer shutdownNodes(nodes)
	if err := gossip(nodes, 2, false); err != nil {
		t.Fatal(err)
	}
	respCh := make(chan net.RPCResponse, 1)
	rpc := net.RPC{Command: &net.SyncRequest{FromID: nodes[0].core.validator.ID(), SyncLimit: -1, Known: map[uint32]int{}}, RespChan: respCh}
	func() {
		defer func() {
			if r := recover(); r != nil {
				t.Errorf("REPRODUCED F3d: processSyncRequest panicked with SyncLimit=-1: %v", r)
			}
		}()
		nodes[1].processSyncRequest(rpc, rpc.Command.(*net.SyncRequest))
	}()
}

// Replay of finding F6 (C02): a node outside a block's peer-set committed the block without storing the
// state hash and receipts (only signBlock re-stored the block).
func TestVerifReplayF6(t *testing.T) {
	k0, _ := keys.GenerateECDSAKey()
	obsKey, _ := keys.GenerateECDSAKey()
	member := peers.NewPeer(keys.PublicKeyHex(&k0.PublicKey), "a0", "p0")
	peerSet := peers.NewPeerSet([]*peers.Peer{member})
	dir, err := ioutil.TempDir("", "verif-f6")
	if err != nil {
		t.Fatal(err)
	}
	defer os.RemoveAll(dir)
	store, err := hg.NewBadgerStore(100, dir, false, nil)
	if err != nil {
		t.Fatal(err)
	}
	commitCb := func(b hg.Block) (proxy.CommitResponse, error) {
		return proxy.CommitResponse{StateHash: []byte("STATE")}, nil
	}
	c := newCore(NewValidator(obsKey, "observer"), peerSet, peerSet, store, commitCb, false, common.NewTestEntry(t, common.TestLogLevel))
	block := hg.NewBlock(0, 0, []byte("framehash"), peerSet.Peers, [][]byte{[]byte("tx")}, nil, 0)
	if err := c.hg.Store.SetBlock(block); err != nil {
		t.Fatal(err)
	}
	if err := c.commit(block); err != nil {
		t.Fatal(err)
	}
	if err := store.Close(); err != nil {
		t.Fatal(err)
	}
	store2, err := hg.NewBadgerStore(100, dir, false, nil)
	if err != nil {
		t.Fatal(err)
	}
	defer store2.Close()
	persisted, err := store2.GetBlock(0)
	if err != nil {
		t.Fatal(err)
	}
	if string(persisted.StateHash()) != "STATE" {
		t.Errorf("REPRODUCED F6: persisted block 0 has state hash %q after commit returned %q", persisted.StateHash(), "STATE")
	}
}

// Replay of finding F8 (C10): after a fast-forward whose anchor lies inside the six-round window of an accepted
// join, the node's running validator set was the one at the anchor round, not the latest one it adopted.
func TestVerifReplayF8(t *testing.T) {
	cores, bobPeer, bobKey := initR2DynHashgraph(t)
	initPeerSet, err := cores[0].hg.Store.GetPeerSet(0)
	if err != nil {
		t.Fatal(err)
	}
	bob := newCore(NewValidator(bobKey, bobPeer.Moniker), initPeerSet, clonePeerSet(t, initPeerSet.Peers),
		hg.NewInmemStore(1000), proxy.DummyCommitCallback, false, common.NewTestEntry(t, common.TestLogLevel))
	bob.setHeadAndSeq()
	block, frame, err := cores[2].hg.GetAnchorBlockWithFrame()
	if err != nil {
		t.Fatal(err)
	}
	if err := bob.fastForward(block, frame); err != nil {
		t.Fatal(err)
	}
	all, err := bob.hg.Store.GetAllPeerSets()
	if err != nil {
		t.Fatal(err)
	}
	maxRound := -1
	for r := range all {
		if r > maxRound {
			maxRound = r
		}
	}
	if len(bob.validators.Peers) != len(all[maxRound]) {
		t.Errorf("REPRODUCED F8: after fast-forward the running validator set has %d peers but the latest adopted set (round %d) has %d",
			len(bob.validators.Peers), maxRound, len(all[maxRound]))
	}
}
