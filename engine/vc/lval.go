package vc

import (
	"strings"
	"go/ast"
	"go/types"
)

// lval is an assignable location.
type lval interface {
	get(st *State) Term
	set(st *State, v Term)
}

type varLval struct {
	e   *Exec
	obj types.Object
}

func (l varLval) get(st *State) Term {
	if l.e.boxed[l.obj] {
		return Select(l.e.heapGet(st, l.e.ptrKey(l.obj.Type())), st.Vars[l.obj])
	}
	if t, ok := st.Vars[l.obj]; ok {
		return t
	}
	return l.e.S.Zero(l.e.S.SortOf(l.obj.Type()))
}

func (l varLval) set(st *State, v Term) {
	if l.e.boxed[l.obj] {
		k := l.e.ptrKey(l.obj.Type())
		l.e.heapSet(st, k, Store(l.e.heapGet(st, k), st.Vars[l.obj], v))
		return
	}
	st.Vars[l.obj] = v
}

// heapLval: field key at a reference.
type heapLval struct {
	e   *Exec
	key string
	ref Term
}

func (l heapLval) get(st *State) Term {
	if l.e.spec == 0 && l.e.readKeys != nil {
		l.e.readKeys[l.key] = true
	}
	if pred := l.e.P.Memo[l.key]; pred != nil && l.e.spec == 0 && l.e.memoBusy == 0 {
		// memo cell: its content is any value allowed by the memo predicate (sound over-approximation:
		// every write is checked against the predicate, which speaks only about immutable data)
		// memo cell: whatever it holds satisfies the memo predicate (every write is checked against it and
		// the predicate speaks only about data that is fixed once the object is built)
		l.e.Ctx.Assume(st.PC, l.e.memoPred(st, pred, l.ref))
		l.e.Assumed["memo cell "+strings.TrimPrefix(l.key, "F:")+" is assumed to satisfy its predicate when read (writes are checked): an object whose cached value does not match its data - e.g. a struct copy altered afterwards - is outside the contracts"] = true
		return Select(l.e.heapGet(st, l.key), l.ref)
	}
	return Select(l.e.heapGet(st, l.key), l.ref)
}
func (l heapLval) set(st *State, v Term) {
	l.e.heapSet(st, l.key, Store(l.e.heapGet(st, l.key), l.ref, v))
	if pred := l.e.P.Memo[l.key]; pred != nil && l.e.spec == 0 && l.e.memoBusy == 0 {
		l.e.memoWritten(st, l.key, pred, l.ref)
	}
}

// structPtrLval: the whole struct stored at a reference (*p where p points to a struct).
type structPtrLval struct {
	e   *Exec
	ref Term
	t   types.Type // struct type
}

func (l structPtrLval) get(st *State) Term  { return l.e.loadStruct(st, l.ref, l.t) }
func (l structPtrLval) set(st *State, v Term) { l.e.storeStruct(st, l.ref, l.t, v) }

// fieldLval: field of a struct value held in another location.
type fieldLval struct {
	e    *Exec
	base lval
	name string
}

func (l fieldLval) get(st *State) Term { return l.e.S.Field(l.base.get(st), l.name) }
func (l fieldLval) set(st *State, v Term) {
	l.base.set(st, l.e.Ctx.Define("su", l.e.S.WithField(l.base.get(st), l.name, v)))
}

// elemLval: element of a slice (value semantics) or array held in another location.
type elemLval struct {
	e    *Exec
	base lval
	idx  Term
	arr  bool
	node ast.Expr // the indexed expression (for the parameter-aliasing check)
}

func (l elemLval) get(st *State) Term {
	b := l.base.get(st)
	if l.arr {
		return Select(b, l.idx)
	}
	return Select(l.e.S.SlArr(b), l.idx)
}

func (l elemLval) set(st *State, v Term) {
	if l.node != nil {
		l.e.noteSliceWrite(st, l.node, l.node)
	}
	b := l.base.get(st)
	if l.arr {
		l.base.set(st, Store(b, l.idx, v))
		return
	}
	l.base.set(st, l.e.S.MkSlice(b.Sort, Store(l.e.S.SlArr(b), l.idx, v), l.e.S.SlLen(b), l.e.S.SlNil(b)))
}

// mapLval: m[k]
type mapLval struct {
	e    *Exec
	m, k Term
	mt   *types.Map
	node ast.Node
}

func (l mapLval) get(st *State) Term {
	v, _ := l.e.mapGet(st, l.m, l.k, l.mt)
	return v
}
func (l mapLval) set(st *State, v Term) { l.e.mapSet(st, l.node, l.m, l.k, v, l.mt) }

// valueLval: a non-assignable temporary (result of a call etc.).
type valueLval struct{ v Term }

func (l valueLval) get(st *State) Term  { return l.v }
func (l valueLval) set(st *State, v Term) {}

type blankLval struct{}

func (blankLval) get(st *State) Term  { return Int(0) }
func (blankLval) set(st *State, v Term) {}

// lvalOf resolves an addressable (or field-selectable) expression to a location.
func (e *Exec) lvalOf(st *State, x ast.Expr) lval {
	switch x := x.(type) {
	case *ast.ParenExpr:
		return e.lvalOf(st, x.X)
	case *ast.Ident:
		if x.Name == "_" {
			return blankLval{}
		}
		obj := e.objOf(x)
		if v, ok := obj.(*types.Var); ok {
			if _, isBound := e.bound[v]; isBound {
				return valueLval{e.bound[v]}
			}
			if _, has := st.Vars[v]; has || e.boxed[v] {
				return varLval{e, v}
			}
			if v.Pkg() != nil && v.Parent() == v.Pkg().Scope() {
				return valueLval{e.evalIdent(st, x)}
			}
			return varLval{e, v}
		}
		return valueLval{e.eval(st, x)}
	case *ast.SelectorExpr:
		sel := e.selectionOf(x)
		if sel == nil || sel.Kind() != types.FieldVal {
			return valueLval{e.eval(st, x)}
		}
		// walk the (possibly promoted) field path
		baseT := e.typeOf(x.X)
		var cur lval
		var curT types.Type = baseT
		if isPointer(baseT) {
			ref := e.eval(st, x.X)
			e.safe(st, "nil", x, Not(Eq(ref, Int(0))))
			cur = nil
			curT = baseT.Underlying().(*types.Pointer).Elem()
			idx := sel.Index()
			su := structOf(curT)
			f := su.Field(idx[0])
			cur = heapLval{e, e.fieldKey(curT, f), ref}
			curT = f.Type()
			for _, i := range idx[1:] {
				cur, curT = e.stepField(st, x, cur, curT, i)
			}
			return e.typed(st, cur, curT)
		}
		cur = e.lvalOf(st, x.X)
		for _, i := range sel.Index() {
			cur, curT = e.stepField(st, x, cur, curT, i)
		}
		return e.typed(st, cur, curT)
	case *ast.StarExpr:
		pt := e.typeOf(x.X)
		ref := e.eval(st, x.X)
		e.safe(st, "nil", x, Not(Eq(ref, Int(0))))
		elem := pt.Underlying().(*types.Pointer).Elem()
		if structOf(elem) != nil && !isPointer(elem) {
			return structPtrLval{e, ref, elem}
		}
		return e.typed(st, heapLval{e, e.ptrKey(elem), ref}, elem)
	case *ast.IndexExpr:
		xt := e.typeOf(x.X)
		switch u := xt.Underlying().(type) {
		case *types.Map:
			m := e.eval(st, x.X)
			k := e.evalTo(st, x.Index, u.Key())
			return mapLval{e, m, k, u, x}
		case *types.Slice:
			if isByteSlice(xt) {
				b := e.eval(st, x.X)
				i := e.eval(st, x.Index)
				e.safe(st, "index", x, And(Ge(i, Int(0)), Lt(i, app(SInt, "bytes_len", b))))
				r := app(SInt, "bytes_at", b, i)
				e.Ctx.Assume(st.PC, And(Ge(r, Int(0)), Le(r, Int(255))))
				return valueLval{r}
			}
			base := e.lvalOf(st, x.X)
			i := e.eval(st, x.Index)
			e.safe(st, "index", x, And(Ge(i, Int(0)), Lt(i, e.S.SlLen(base.get(st)))))
			return e.typed(st, elemLval{e, base, i, false, x.X}, u.Elem())
		case *types.Array:
			base := e.lvalOf(st, x.X)
			i := e.eval(st, x.Index)
			e.safe(st, "index", x, And(Ge(i, Int(0)), Lt(i, Int(u.Len()))))
			return elemLval{e, base, i, true, nil}
		case *types.Pointer: // pointer to array
			e.unsupported(x.Pos(), "index through pointer to array")
		}
	case *ast.CallExpr, *ast.CompositeLit, *ast.TypeAssertExpr, *ast.SliceExpr, *ast.BinaryExpr, *ast.UnaryExpr:
		return valueLval{e.eval(st, x)}
	}
	e.unsupported(x.Pos(), "lvalue %T", x)
	return blankLval{}
}

// typed wraps a location so that values read from it get their type invariant assumed.
func (e *Exec) typed(st *State, l lval, t types.Type) lval {
	return typedLval{e, l, t}
}

type typedLval struct {
	e *Exec
	l lval
	t types.Type
}

func (l typedLval) get(st *State) Term {
	v := l.l.get(st)
	l.e.assumeType(st, v, l.t)
	return v
}
func (l typedLval) set(st *State, v Term) { l.l.set(st, v) }

func (e *Exec) stepField(st *State, node ast.Node, cur lval, curT types.Type, i int) (lval, types.Type) {
	if isPointer(curT) {
		ref := cur.get(st)
		e.safe(st, "nil", node, Not(Eq(ref, Int(0))))
		elem := curT.Underlying().(*types.Pointer).Elem()
		f := structOf(elem).Field(i)
		return heapLval{e, e.fieldKey(elem, f), ref}, f.Type()
	}
	f := structOf(curT).Field(i)
	return fieldLval{e, cur, f.Name()}, f.Type()
}
