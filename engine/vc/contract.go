package vc

import (
	"fmt"
	"go/ast"
	"go/parser"
	"go/token"
	"regexp"
	"strings"
)

// Clause is one labelled contract expression.
type Clause struct {
	Kind  string // requires, ensures, aux, invariant, assert, decreases
	Label string
	Src   string   // source text after sugar expansion
	Expr  ast.Expr // parsed (positions meaningless)
	Line  string   // file:line of the contract text
	orig  ast.Expr // the expression as parsed, before CheckClause's substitutions (re-checks start from it)
	// Hidden: an `establishes` clause - a postcondition that is an obligation of the body but is not assumed at
	// call sites (an object invariant over an encapsulated representation: clients cannot use it)
	Hidden bool
}

type LoopSpec struct {
	Invariants []*Clause
	Decreases  *Clause
	Modifies   []string
	ModGiven   bool
}

type CallAssert struct {
	Callee  string // method or function name
	After   bool   // evaluated after the call returned instead of before it
	Ordinal int    // 0 = every call
	Clause  *Clause
	Assume  bool // assumption instead of obligation
	// Capture: not an assertion - the value of the expression at the call is remembered under the label and can be
	// read later with __cap[T]("label") (ghost variable assigned at the call)
	Capture bool
}

// Contract is the parsed `//@ func` block of one function.
type Contract struct {
	Key       string // "Type.Method" or "Func"
	Pkg       string // package path
	Sig       string // signature text as written in the contract
	ParamName []string
	RecvName  string
	IntMode   string // ideal | checked | wrap
	Safety    bool
	Requires  []*Clause
	Assumes   []*Clause // entry assumptions: used in the body's proof, NOT required from callers; reported as assumptions
	Ensures   []*Clause
	Aux       []*Clause
	Modifies  []string // designator source texts
	ModGiven  bool
	Loops     map[int]*LoopSpec
	Calls     []*CallAssert
	Opaque    bool // body not verified (contract assumed) — listed as assumption
	Trusted   string
	Inline    bool // callers inline the body even though a contract exists
	File      string
	Line      int
	NoBody    bool // interface method contract
	Pure      bool // calls may appear in specifications
	Lemma     bool
	FloatBV   bool
	// PureFields: function-typed fields (callbacks into the application) assumed not to modify verifier-visible
	// state; their results are unconstrained.
	PureFields map[string]bool
	CallbackMods map[string][]string // callback field -> designators it may modify
	// Registers: "Type.field" — this function is what the program installs in that function-typed field (a callback
	// with a `callback` clause): whoever may invoke the field also writes what this function writes.
	Registers []string
	// LocalRen: repairs of proof hints whose text names a local variable that no longer exists (old name -> a local of
	// the current function); chosen by VerifyFuncRebinding, accepted only if every obligation then discharges.
	LocalRen map[string]string
	// Relies: two-state clauses over quantified objects only (no parameter, receiver or local) that this function
	// ensures and that are reflexive and transitive (both are obligations): what survives any number of invocations
	// of it as a callback. Callers of functions that may invoke the callback assume them for the keys it alone writes.
	Relies []*Clause
	Reveal     map[string]bool // opaque ghost functions whose definition this function's proof may use
	// Implements: "Iface.Method" — the method is verified against that interface method's (otherwise assumed)
	// contract as well: its requires are added to this contract's, its ensures become obligations
	// (conform-<label>) and its modifies are added to the frame.
	// ScopeEntry: postconditions are type-checked in the scope at the function's entry instead of its end (for
	// functions in which a local variable shadows a name the clause needs, e.g. a local `core` hiding type core)
	ScopeEntry bool
	// NoRead: fields ("Type.field") the function's code must not read, directly or through helpers that are
	// expanded in place: process-local state that a DAG-determined result must not depend on.
	NoRead []string
	Implements string
	// ProvedFor: implementations whose contract says `implements` this interface method (its clauses are proved on them)
	ProvedFor []string
	// GhostSets: ghost assignments executed at the function's exit, before the postconditions are checked
	// (`ghostset G_f(x) := e [when c]`): the way an implementation maintains the ghost view its interface is
	// specified with.
	GhostSets []*GhostSet
}

// GhostSet is one `ghostset target := value [when cond]` clause.
type GhostSet struct {
	SuchThat bool
	Target string
	Value  *Clause
	When   *Clause // nil = always
}

// GhostDecl is Go source to be added to the package's ghost file.
type GhostDecl struct {
	Src           string
	Uninterpreted string // function name if bodyless
}

type PkgContracts struct {
	PkgName   string
	Contracts map[string]*Contract
	Ghost     []GhostDecl
	Imports   []string
	Uninterp  map[string]bool
	GhostFields map[string]bool // accessor function names that denote ghost heap fields
	Axioms    []*Clause
	Memos     []MemoDecl
	// Private: heap keys (written as they appear in frame obligation names, e.g. common_LRU.items, ghost:common.elems,
	// mapval:map_...) that make up an encapsulated representation of this package: functions of OTHER packages
	// have no frame obligation for them (they cannot name or touch them; the load-time scan checks that).
	Private   []string
	Opaque    map[string]bool // ghost functions whose body is visible only where revealed
}

// MemoDecl: `//@ memo T.f pred` — field f of T is a memo cell; pred is a ghost method of *T that states
// what the cell may hold (in terms of data that does not change once the object is built).
type MemoDecl struct {
	Type, Field, Pred string
	Line              string
}

var clauseKW = map[string]bool{"scope": true, "noread": true, "implements": true, "ghostset": true, "ints": true, "safety": true, "requires": true, "assume": true, "ensures": true, "establishes": true, "aux": true, "modifies": true,
	"loop": true, "call": true, "callback": true, "registers": true, "rely": true, "reveal": true, "opaque": true, "trusted": true, "inline": true, "pure": true, "float": true}

var reHead = regexp.MustCompile(`^(requires|assume|ensures|establishes|rely|aux|invariant|assert|decreases)(\[[^\]]+\])?\s*(.*)$`)

// ParseContracts parses the //@ lines of one contracts_verif.go file.
func ParseContracts(filename, pkgPath string, src []byte) (*PkgContracts, error) {
	pc := &PkgContracts{Contracts: map[string]*Contract{}, Uninterp: map[string]bool{}, GhostFields: map[string]bool{}}
	lines := strings.Split(string(src), "\n")
	type item struct {
		text string
		line int
	}
	var items []item // logical clauses (continuations merged)
	for i, l := range lines {
		t := strings.TrimSpace(l)
		if strings.HasPrefix(t, "package ") {
			pc.PkgName = strings.TrimSpace(strings.TrimPrefix(t, "package "))
		}
		if !strings.HasPrefix(t, "//@") {
			continue
		}
		body := strings.TrimPrefix(t, "//@")
		trim := strings.TrimSpace(body)
		if trim == "" {
			continue
		}
		first := strings.FieldsFunc(trim, func(r rune) bool { return r == ' ' || r == '[' || r == '\t' })[0]
		isNew := clauseKW[first] || first == "func" || first == "ghost" || first == "lemma" || first == "import" || first == "axiom" || first == "iface" || first == "memo" || first == "private"
		if isNew || len(items) == 0 {
			items = append(items, item{trim, i + 1})
		} else {
			items[len(items)-1].text += " " + trim
		}
	}
	var cur *Contract
	for _, it := range items {
		text := it.text
		loc := fmt.Sprintf("%s:%d", filename, it.line)
		fields := strings.Fields(text)
		kw := strings.FieldsFunc(text, func(r rune) bool { return r == ' ' || r == '[' || r == '\t' })[0]
		switch kw {
		case "import":
			pc.Imports = append(pc.Imports, strings.TrimSpace(strings.TrimPrefix(text, "import")))
			cur = nil
		case "ghost":
			rest := strings.TrimSpace(strings.TrimPrefix(text, "ghost"))
			if strings.HasPrefix(rest, "opaque func") {
				rest = strings.TrimSpace(strings.TrimPrefix(rest, "opaque"))
				if name, err := funcNameOf(strings.SplitN(rest, "{", 2)[0]); err == nil {
					if pc.Opaque == nil {
						pc.Opaque = map[string]bool{}
					}
					pc.Opaque[name] = true
				}
			}
			if strings.HasPrefix(rest, "field ") {
				// ghost field <RecvType> <name> <type>
				f := strings.Fields(rest)
				if len(f) < 4 {
					return nil, fmt.Errorf("%s: bad ghost field", loc)
				}
				typ := strings.Join(f[3:], " ")
				fn := "G_" + f[2]
				pc.Ghost = append(pc.Ghost, GhostDecl{Src: fmt.Sprintf("func %s(__o %s) (__r %s) { return }", fn, f[1], typ)})
				pc.GhostFields[fn] = true
			} else {
				if strings.HasPrefix(rest, "func") && strings.Contains(rest, "{") {
					d, err := Desugar(rest)
					if err != nil {
						return nil, fmt.Errorf("%s: %v", loc, err)
					}
					rest = d
				}
				gd := GhostDecl{Src: rest}
				if strings.HasPrefix(rest, "func") && !strings.Contains(rest, "{") {
					name, err := funcNameOf(rest)
					if err != nil {
						return nil, fmt.Errorf("%s: %v", loc, err)
					}
					gd.Uninterpreted = name
					gd.Src = bodylessToStub(rest)
					pc.Uninterp[name] = true
				}
				pc.Ghost = append(pc.Ghost, gd)
			}
			cur = nil
		case "memo":
			f := strings.Fields(text)
			if len(f) != 3 || !strings.Contains(f[1], ".") {
				return nil, fmt.Errorf("%s: memo <Type>.<field> <ghost predicate method>", loc)
			}
			i := strings.Index(f[1], ".")
			pc.Memos = append(pc.Memos, MemoDecl{Type: f[1][:i], Field: f[1][i+1:], Pred: f[2], Line: loc})
			cur = nil
		case "private":
			pc.Private = append(pc.Private, strings.Fields(text)[1:]...)
			cur = nil
		case "axiom":
			m := regexp.MustCompile(`^axiom(\[[^\]]+\])?\s*(.*)$`).FindStringSubmatch(text)
			cl, err := mkClause("axiom", strings.Trim(m[1], "[]"), m[2], loc)
			if err != nil {
				return nil, err
			}
			pc.Axioms = append(pc.Axioms, cl)
			cur = nil
		case "func", "lemma", "iface":
			sig := strings.TrimSpace(text)
			isLemma := fields[0] == "lemma"
			isIface := fields[0] == "iface"
			if isLemma {
				sig = "func " + strings.TrimSpace(strings.TrimPrefix(text, "lemma"))
			}
			if isIface {
				sig = strings.TrimSpace(strings.TrimPrefix(text, "iface"))
			}
			key, recvName, params, err := sigKey(sig)
			if err != nil {
				return nil, fmt.Errorf("%s: %v", loc, err)
			}
			cur = &Contract{Key: key, Pkg: pkgPath, Sig: sig, ParamName: params, RecvName: recvName, IntMode: "ideal", Loops: map[int]*LoopSpec{}, File: filename, Line: it.line, Lemma: isLemma}
			if _, dup := pc.Contracts[key]; dup {
				return nil, fmt.Errorf("%s: duplicate contract for %s", loc, key)
			}
			pc.Contracts[key] = cur
			if isIface {
				cur.NoBody = true
				stub, err := ifaceStub(sig, key)
				if err != nil {
					return nil, fmt.Errorf("%s: %v", loc, err)
				}
				pc.Ghost = append(pc.Ghost, GhostDecl{Src: stub})
			}
			if isLemma {
				// lemma = ghost function with empty body; its contract is proved from the requires alone
				pc.Ghost = append(pc.Ghost, GhostDecl{Src: sig + " { }"})
			}
		default:
			if cur == nil {
				return nil, fmt.Errorf("%s: clause outside a func block: %s", loc, text)
			}
			if err := parseClause(cur, text, loc); err != nil {
				return nil, err
			}
		}
	}
	return pc, nil
}

func parseClause(c *Contract, text, loc string) error {
	fields := strings.Fields(text)
	switch fields[0] {
	case "ints":
		if len(fields) != 2 || (fields[1] != "ideal" && fields[1] != "checked" && fields[1] != "wrap") {
			return fmt.Errorf("%s: ints ideal|checked|wrap", loc)
		}
		c.IntMode = fields[1]
	case "scope":
		c.ScopeEntry = len(fields) == 2 && fields[1] == "entry"
	case "noread":
		for _, d := range splitTopLevel(strings.TrimSpace(strings.TrimPrefix(text, "noread")), ',') {
			if d = strings.TrimSpace(d); d != "" {
				c.NoRead = append(c.NoRead, d)
			}
		}
	case "implements":
		if len(fields) != 2 {
			return fmt.Errorf("%s: implements Iface.Method", loc)
		}
		c.Implements = fields[1]
	case "ghostset":
		rest := strings.TrimSpace(strings.TrimPrefix(text, "ghostset"))
		suchThat := false
		i := strings.Index(rest, ":=")
		if j := strings.Index(rest, ":|"); j >= 0 && (i < 0 || j < i) {
			// `ghostset target :| P`: the ghost location takes some value satisfying P (P mentions the location
			// itself); used where the new value is characterised rather than written down. That such a value
			// exists is not checked (listed as an assumption).
			suchThat = true
			i = j
		}
		if i < 0 {
			return fmt.Errorf("%s: ghostset target := value [when cond]  |  ghostset target :| predicate [when cond]", loc)
		}
		gs := &GhostSet{Target: strings.TrimSpace(rest[:i]), SuchThat: suchThat}
		val := strings.TrimSpace(rest[i+2:])
		if j := strings.LastIndex(val, " when "); j >= 0 {
			w, err := mkClause("when", "when", strings.TrimSpace(val[j+6:]), loc)
			if err != nil {
				return err
			}
			gs.When = w
			val = strings.TrimSpace(val[:j])
		}
		v, err := mkClause("ghostset", gs.Target, val, loc)
		if err != nil {
			return err
		}
		gs.Value = v
		c.GhostSets = append(c.GhostSets, gs)
	case "float":
		c.FloatBV = true
	case "safety":
		c.Safety = len(fields) > 1 && fields[1] == "on"
	case "opaque":
		c.Opaque = true
	case "inline":
		c.Inline = true
	case "pure":
		c.Pure = true
	case "trusted":
		c.Opaque = true
		c.Trusted = strings.TrimSpace(strings.TrimPrefix(text, "trusted"))
	case "reveal":
		if c.Reveal == nil {
			c.Reveal = map[string]bool{}
		}
		for _, f := range fields[1:] {
			c.Reveal[strings.Trim(f, ",")] = true
		}
	case "registers":
		for _, f := range fields[1:] {
			c.Registers = append(c.Registers, strings.Trim(f, ","))
		}
	case "callback":
		// callback <field> modifies nothing
		if len(fields) < 2 {
			return fmt.Errorf("%s: callback <field> modifies nothing", loc)
		}
		if c.PureFields == nil {
			c.PureFields = map[string]bool{}
			c.CallbackMods = map[string][]string{}
		}
		c.PureFields[fields[1]] = true
		if i := strings.Index(text, "modifies"); i >= 0 {
			rest := strings.TrimSpace(text[i+len("modifies"):])
			if rest != "" && rest != "nothing" {
				for _, d := range splitTopLevel(rest, ',') {
					c.CallbackMods[fields[1]] = append(c.CallbackMods[fields[1]], strings.TrimSpace(d))
				}
			}
		}
	case "modifies":
		c.ModGiven = true
		rest := strings.TrimSpace(strings.TrimPrefix(text, "modifies"))
		if rest != "" && rest != "nothing" {
			for _, d := range splitTopLevel(rest, ',') {
				c.Modifies = append(c.Modifies, strings.TrimSpace(d))
			}
		}
	case "loop":
		if len(fields) < 3 {
			return fmt.Errorf("%s: loop <n> invariant|decreases|modifies ...", loc)
		}
		var n int
		if _, err := fmt.Sscanf(fields[1], "%d", &n); err != nil {
			return fmt.Errorf("%s: loop ordinal: %v", loc, err)
		}
		ls := c.Loops[n]
		if ls == nil {
			ls = &LoopSpec{}
			c.Loops[n] = ls
		}
		rest := strings.TrimSpace(text[strings.Index(text, fields[1])+len(fields[1]):])
		if strings.HasPrefix(rest, "modifies") {
			ls.ModGiven = true
			r := strings.TrimSpace(strings.TrimPrefix(rest, "modifies"))
			if r != "" && r != "nothing" {
				for _, d := range splitTopLevel(r, ',') {
					ls.Modifies = append(ls.Modifies, strings.TrimSpace(d))
				}
			}
			return nil
		}
		m := reHead.FindStringSubmatch(rest)
		if m == nil {
			return fmt.Errorf("%s: bad loop clause %q", loc, rest)
		}
		cl, err := mkClause(m[1], strings.Trim(m[2], "[]"), m[3], loc)
		if err != nil {
			return err
		}
		if m[1] == "decreases" {
			ls.Decreases = cl
		} else {
			if cl.Label == "" {
				cl.Label = fmt.Sprintf("i%d", len(ls.Invariants)+1)
			}
			ls.Invariants = append(ls.Invariants, cl)
		}
	case "call":
		// call <Callee>[#n] assert[label] expr
		if len(fields) < 3 {
			return fmt.Errorf("%s: call <callee> assert[label] expr", loc)
		}
		callee := fields[1]
		ord := 0
		if i := strings.Index(callee, "#"); i >= 0 {
			fmt.Sscanf(callee[i+1:], "%d", &ord)
			callee = callee[:i]
		}
		rest := strings.TrimSpace(strings.TrimPrefix(strings.TrimSpace(strings.TrimPrefix(strings.TrimSpace(text), "call")), fields[1]))
		isAfter := false
		if strings.HasPrefix(rest, "after ") {
			// `call f after assert[l] e`: checked right after the call returns (its results are __lastret(f, i))
			isAfter = true
			rest = strings.TrimSpace(strings.TrimPrefix(rest, "after "))
		}
		isCapture := false
		if strings.HasPrefix(rest, "capture") {
			isCapture = true
			rest = "assert" + strings.TrimPrefix(rest, "capture")
		}
		isAssume := false
		if strings.HasPrefix(rest, "assume") {
			// an explicit environment assumption at a call (reported in the evidence, never silently)
			isAssume = true
			rest = "assert" + strings.TrimPrefix(rest, "assume")
		}
		m := reHead.FindStringSubmatch(rest)
		if m == nil || m[1] != "assert" {
			return fmt.Errorf("%s: bad call clause %q", loc, rest)
		}
		cl, err := mkClause("assert", strings.Trim(m[2], "[]"), m[3], loc)
		if err != nil {
			return err
		}
		c.Calls = append(c.Calls, &CallAssert{Callee: callee, Ordinal: ord, Clause: cl, Assume: isAssume, After: isAfter, Capture: isCapture})
	default:
		m := reHead.FindStringSubmatch(text)
		if m == nil {
			return fmt.Errorf("%s: unknown clause %q", loc, text)
		}
		cl, err := mkClause(m[1], strings.Trim(m[2], "[]"), m[3], loc)
		if err != nil {
			return err
		}
		switch m[1] {
		case "requires":
			if cl.Label == "" {
				cl.Label = fmt.Sprintf("r%d", len(c.Requires)+1)
			}
			c.Requires = append(c.Requires, cl)
		case "assume":
			if cl.Label == "" {
				cl.Label = fmt.Sprintf("as%d", len(c.Assumes)+1)
			}
			c.Assumes = append(c.Assumes, cl)
		case "ensures":
			if cl.Label == "" {
				cl.Label = fmt.Sprintf("e%d", len(c.Ensures)+1)
			}
			c.Ensures = append(c.Ensures, cl)
		case "establishes":
			if cl.Label == "" {
				cl.Label = fmt.Sprintf("e%d", len(c.Ensures)+1)
			}
			cl.Kind = "ensures"
			cl.Hidden = true
			c.Ensures = append(c.Ensures, cl)
		case "rely":
			if cl.Label == "" {
				cl.Label = fmt.Sprintf("%d", len(c.Relies)+1)
			}
			cl.Label = "rely-" + cl.Label
			cl.Kind = "ensures"
			c.Ensures = append(c.Ensures, cl)
			c.Relies = append(c.Relies, cl)
		case "aux":
			if cl.Label == "" {
				cl.Label = fmt.Sprintf("a%d", len(c.Aux)+1)
			}
			c.Aux = append(c.Aux, cl)
		default:
			return fmt.Errorf("%s: clause %s not allowed here", loc, m[1])
		}
	}
	return nil
}

func mkClause(kind, label, src, loc string) (*Clause, error) {
	exp, err := Desugar(src)
	if err != nil {
		return nil, fmt.Errorf("%s: %v", loc, err)
	}
	e, err := parser.ParseExpr(exp)
	if err != nil {
		return nil, fmt.Errorf("%s: cannot parse %q: %v", loc, exp, err)
	}
	return &Clause{Kind: kind, Label: label, Src: exp, Expr: e, Line: loc}, nil
}

// Desugar rewrites the contract sugar into plain Go expression syntax:
//
//	a ==> b                 __implies(a, b)      (lowest precedence, right associative)
//	a <==> b                __iff(a, b)
//	forall i, j int :: e    __forall(func(i, j int) bool { return e })
//	exists i int :: e       __exists(func(i int) bool { return e })
//	old(e)                  __old(e)
func Desugar(s string) (string, error) {
	s = strings.TrimSpace(s)
	s = regexp.MustCompile(`\bold\(`).ReplaceAllString(s, "__old(")
	return desugarExpr(s)
}

func desugarExpr(s string) (string, error) {
	s = strings.TrimSpace(s)
	// quantifier at the start
	for _, q := range []string{"forall", "exists"} {
		if strings.HasPrefix(s, q+" ") {
			i := indexTopLevel(s, "::")
			if i < 0 {
				return "", fmt.Errorf("quantifier without '::' in %q", s)
			}
			binder := strings.TrimSpace(s[len(q):i])
			body, err := desugarExpr(s[i+2:])
			if err != nil {
				return "", err
			}
			return fmt.Sprintf("__%s(func(%s) bool { return %s })", q, binder, body), nil
		}
	}
	// <==> then ==> at top level (lowest precedence)
	if i := indexTopLevel(s, "<==>"); i >= 0 {
		a, err := desugarExpr(s[:i])
		if err != nil {
			return "", err
		}
		b, err := desugarExpr(s[i+4:])
		if err != nil {
			return "", err
		}
		return fmt.Sprintf("__iff(%s, %s)", a, b), nil
	}
	if i := indexTopLevel(s, "==>"); i >= 0 {
		a, err := desugarExpr(s[:i])
		if err != nil {
			return "", err
		}
		b, err := desugarExpr(s[i+3:])
		if err != nil {
			return "", err
		}
		return fmt.Sprintf("__implies(%s, %s)", a, b), nil
	}
	// recurse into parenthesised / bracketed groups
	var out strings.Builder
	for i := 0; i < len(s); {
		c := s[i]
		if c == '"' || c == '`' {
			j := i + 1
			for j < len(s) && s[j] != c {
				if s[j] == '\\' && c == '"' {
					j++
				}
				j++
			}
			out.WriteString(s[i:min(j+1, len(s))])
			i = j + 1
			continue
		}
		if c == '(' || c == '[' || c == '{' {
			j := matchClose(s, i)
			if j < 0 {
				return "", fmt.Errorf("unbalanced %q", s)
			}
			inner := s[i+1 : j]
			var parts []string
			for _, p := range splitArgs(inner) {
				if c == '{' {
					// statement bodies (func literals) — leave, but desugar after 'return'
					pt := strings.TrimSpace(p)
					if strings.HasPrefix(pt, "return ") {
						d, err := desugarExpr(strings.TrimPrefix(pt, "return "))
						if err != nil {
							return "", err
						}
						parts = append(parts, " return "+d+" ")
						continue
					}
				}
				d, err := desugarExpr(p)
				if err != nil {
					return "", err
				}
				parts = append(parts, d)
			}
			out.WriteByte(c)
			out.WriteString(strings.Join(parts, ", "))
			out.WriteByte(s[j])
			i = j + 1
			continue
		}
		out.WriteByte(c)
		i++
	}
	return out.String(), nil
}

// splitArgs splits at top-level commas, but keeps the binder list of a quantifier ("forall i int, v string :: e")
// together with its body.
func splitArgs(inner string) []string {
	raw := splitTopLevel(inner, ',')
	var out []string
	for k := 0; k < len(raw); k++ {
		seg := raw[k]
		t := strings.TrimSpace(seg)
		t = strings.TrimPrefix(t, "return ")
		if (strings.HasPrefix(t, "forall ") || strings.HasPrefix(t, "exists ")) && indexTopLevel(seg, "::") < 0 {
			for k+1 < len(raw) && indexTopLevel(seg, "::") < 0 {
				k++
				seg += "," + raw[k]
			}
			// the body of a quantifier extends to the end of the enclosing group
			for k+1 < len(raw) {
				k++
				seg += "," + raw[k]
			}
		} else if strings.HasPrefix(t, "forall ") || strings.HasPrefix(t, "exists ") {
			for k+1 < len(raw) {
				k++
				seg += "," + raw[k]
			}
		}
		out = append(out, seg)
	}
	return out
}

func matchClose(s string, i int) int {
	open := s[i]
	var cl byte
	switch open {
	case '(':
		cl = ')'
	case '[':
		cl = ']'
	case '{':
		cl = '}'
	}
	depth := 0
	for j := i; j < len(s); j++ {
		switch s[j] {
		case '"', '`':
			q := s[j]
			j++
			for j < len(s) && s[j] != q {
				if s[j] == '\\' && q == '"' {
					j++
				}
				j++
			}
		case open:
			depth++
		case cl:
			depth--
			if depth == 0 {
				return j
			}
		}
	}
	return -1
}

// indexTopLevel finds the first occurrence of tok outside brackets and strings.
func indexTopLevel(s, tok string) int {
	depth := 0
	for i := 0; i < len(s); i++ {
		switch s[i] {
		case '"', '`':
			q := s[i]
			i++
			for i < len(s) && s[i] != q {
				if s[i] == '\\' && q == '"' {
					i++
				}
				i++
			}
		case '(', '[', '{':
			depth++
		case ')', ']', '}':
			depth--
		default:
			if depth == 0 && strings.HasPrefix(s[i:], tok) {
				// "==>" must not match inside "<==>"
				if tok == "==>" && i > 0 && s[i-1] == '<' {
					continue
				}
				return i
			}
		}
	}
	return -1
}

func splitTopLevel(s string, sep byte) []string {
	var out []string
	depth := 0
	start := 0
	for i := 0; i < len(s); i++ {
		switch s[i] {
		case '"', '`':
			q := s[i]
			i++
			for i < len(s) && s[i] != q {
				if s[i] == '\\' && q == '"' {
					i++
				}
				i++
			}
		case '(', '[', '{':
			depth++
		case ')', ']', '}':
			depth--
		default:
			if s[i] == sep && depth == 0 {
				out = append(out, s[start:i])
				start = i + 1
			}
		}
	}
	out = append(out, s[start:])
	return out
}

// sigKey parses "func (r *T) Name(a int, b string) error" and returns "T.Name", receiver name, parameter names.
func sigKey(sig string) (key, recv string, params []string, err error) {
	src := "package p\n" + sig + " {}\n"
	fset := token.NewFileSet()
	f, perr := parser.ParseFile(fset, "sig.go", src, 0)
	if perr != nil {
		return "", "", nil, fmt.Errorf("cannot parse signature %q: %v", sig, perr)
	}
	fd := f.Decls[0].(*ast.FuncDecl)
	key = fd.Name.Name
	if fd.Recv != nil && len(fd.Recv.List) == 1 {
		t := fd.Recv.List[0].Type
		if st, ok := t.(*ast.StarExpr); ok {
			t = st.X
		}
		if id, ok := t.(*ast.Ident); ok {
			key = id.Name + "." + key
		}
		if se, ok := t.(*ast.SelectorExpr); ok {
			// method of a type of another (external) package: "alias.Type.Method"
			if x, ok := se.X.(*ast.Ident); ok {
				key = x.Name + "." + se.Sel.Name + "." + key
			}
		}
		if len(fd.Recv.List[0].Names) == 1 {
			recv = fd.Recv.List[0].Names[0].Name
		}
	}
	for _, p := range fd.Type.Params.List {
		if len(p.Names) == 0 {
			params = append(params, "_")
		}
		for _, n := range p.Names {
			params = append(params, n.Name)
		}
	}
	return
}

// ifaceStub turns "func (s Store) GetEvent(hash string) (*Event, error)" into
// "func __iface_Store_GetEvent(s Store, hash string) (ret0 *Event, ret1 error) { return }".
func ifaceStub(sig, key string) (string, error) {
	src := "package p\n" + sig + " {}\n"
	fset := token.NewFileSet()
	f, err := parser.ParseFile(fset, "sig.go", src, 0)
	if err != nil {
		return "", err
	}
	fd := f.Decls[0].(*ast.FuncDecl)
	text := func(n ast.Node) string { return src[fset.Position(n.Pos()).Offset:fset.Position(n.End()).Offset] }
	var params []string
	if fd.Recv != nil && len(fd.Recv.List) == 1 {
		name := "__recv"
		if len(fd.Recv.List[0].Names) == 1 {
			name = fd.Recv.List[0].Names[0].Name
		}
		params = append(params, name+" "+text(fd.Recv.List[0].Type))
	}
	for i, p := range fd.Type.Params.List {
		if len(p.Names) == 0 {
			params = append(params, fmt.Sprintf("__p%d %s", i, text(p.Type)))
			continue
		}
		var ns []string
		for _, n := range p.Names {
			ns = append(ns, n.Name)
		}
		params = append(params, strings.Join(ns, ", ")+" "+text(p.Type))
	}
	var results []string
	k := 0
	if fd.Type.Results != nil {
		for _, r := range fd.Type.Results.List {
			if len(r.Names) == 0 {
				results = append(results, fmt.Sprintf("ret%d %s", k, text(r.Type)))
				k++
				continue
			}
			for _, n := range r.Names {
				results = append(results, n.Name+" "+text(r.Type))
				k++
			}
		}
	}
	return fmt.Sprintf("func %s(%s) (%s) { return }", "__iface_"+strings.ReplaceAll(key, ".", "_"), strings.Join(params, ", "), strings.Join(results, ", ")), nil
}

func funcNameOf(sig string) (string, error) {
	key, _, _, err := sigKey(sig)
	if err != nil {
		return "", err
	}
	if i := strings.Index(key, "."); i >= 0 {
		return key, nil
	}
	return key, nil
}

// bodylessToStub turns "func f(a T) R" into a declaration with named result and empty return.
func bodylessToStub(sig string) string {
	return sig + " { panic(\"spec\") }"
}


// expandImplements adds the clauses of the implemented interface method's contract to every contract that says
// `implements Iface.Method` (names of the interface contract's receiver and parameters are mapped positionally to
// the names used in the implementing contract's header).
func (pc *PkgContracts) expandImplements() error {
	for _, c := range pc.Contracts {
		if c.Implements == "" {
			continue
		}
		ic := pc.Contracts[c.Implements]
		if ic != nil {
			ic.ProvedFor = append(ic.ProvedFor, c.Key)
		}
		if ic == nil || !ic.NoBody {
			return fmt.Errorf("%s:%d: %s implements %s, which has no `iface func` contract in this package", c.File, c.Line, c.Key, c.Implements)
		}
		ren := map[string]string{}
		if ic.RecvName != "" && c.RecvName != "" && ic.RecvName != c.RecvName {
			ren[ic.RecvName] = c.RecvName
		}
		if len(ic.ParamName) != len(c.ParamName) {
			return fmt.Errorf("%s:%d: %s and %s have different numbers of parameters", c.File, c.Line, c.Key, c.Implements)
		}
		for i, n := range ic.ParamName {
			if n != c.ParamName[i] && n != "_" && c.ParamName[i] != "_" {
				ren[n] = c.ParamName[i]
			}
		}
		renExpr := func(x ast.Expr) ast.Expr {
			b := map[string]int{}
			return substIdents(x, func(id *ast.Ident) ast.Expr {
				if b[id.Name] > 0 {
					return nil
				}
				if to, ok := ren[id.Name]; ok {
					return ast.NewIdent(to)
				}
				return nil
			}, b)
		}
		derive := func(cl *Clause, kind, prefix string) *Clause {
			// a fresh syntax tree (parsed again from the clause text): type information is recorded per node, and
			// the derived clause is checked in another scope than the interface contract's own clause
			fresh, err := parser.ParseExpr(cl.Src)
			if err != nil {
				fresh = cl.Expr
			}
			return &Clause{Kind: kind, Label: prefix + cl.Label, Src: cl.Src, Expr: renExpr(fresh), Line: cl.Line}
		}
		for _, r := range ic.Requires {
			c.Requires = append(c.Requires, derive(r, "requires", "iface-"))
		}
		for _, en := range ic.Ensures {
			c.Ensures = append(c.Ensures, derive(en, "ensures", "conform-"))
		}
		if ic.ModGiven {
			for _, m := range ic.Modifies {
				t := m
				for from, to := range ren {
					t = regexp.MustCompile(`\b`+regexp.QuoteMeta(from)+`\b`).ReplaceAllString(t, to)
				}
				c.Modifies = append(c.Modifies, t)
			}
		}
	}
	return nil
}
