#!/usr/bin/env python3
"""Must-fail corpus runner: every patch is applied to a scratch copy of /repo (never to /repo itself); the
named functions are re-verified there and an obligation matching `expect` must fail ("none" = negative
control: nothing may fail). Usage: selftest/run.py [-j N] [name-prefix ...]   Exit 0 iff every row behaves.
Rows are distributed over N workers (default 6), each with its own scratch copy."""
import json, os, re, shutil, subprocess, sys, glob, tempfile, threading, queue
ROOT = '/verif/selftest'
base_env = dict(os.environ, GOFLAGS='-mod=mod', GOPROXY='off', GOSUMDB='off', GOTOOLCHAIN='local')
args = sys.argv[1:]
jobs = 6
if args[:1] == ['-j']:
    jobs = int(args[1]); args = args[2:]
want = args
rows = [r for r in sorted(glob.glob(ROOT + '/*.json'))
        if not want or any(os.path.basename(r).startswith(w) for w in want)]
# obligations of listed open findings fail on the unchanged tree by definition: not counted for any row
KNOWN_OPEN = set()
for line in open('/verif/known_findings.jsonl'):
    line = line.strip()
    if line:
        f = json.loads(line)
        if f.get('status') == 'open':
            KNOWN_OPEN.add(f.get('obligation'))
q = queue.Queue()
for r in rows:
    q.put(r)
out_lock = threading.Lock()
bad = [0]
base = tempfile.mkdtemp(prefix='govc-selftest.')


def worker(w):
    scratch = os.path.join(base, f'w{w}')
    os.makedirs(scratch)
    subprocess.check_call(['rsync', '-a', '--exclude', '.git', '--exclude', 'test_data', '/repo/', scratch + '/'])
    env = dict(base_env, GOVC_REPO=scratch, GOVC_DEVDIR=os.path.join(base, f'smt{w}'))
    while True:
        try:
            r = q.get_nowait()
        except queue.Empty:
            return
        try:
            d = json.load(open(r))
        except Exception as ex:
            with out_lock:
                print(f'{os.path.basename(r)}: INVALID-ROW {ex}'); bad[0] += 1
            continue
        name = os.path.basename(r)[:-5]
        patch = os.path.join(ROOT, d['patch'])
        p = subprocess.run(['patch', '-p1', '-s', '-d', scratch, '-i', patch], capture_output=True, text=True)
        if p.returncode != 0:
            subprocess.run(['patch', '-R', '-p1', '-s', '-f', '-d', scratch, '-i', patch], capture_output=True)
            subprocess.check_call(['rsync', '-a', '--delete', '--exclude', '.git', '--exclude', 'test_data', '/repo/', scratch + '/'])
            with out_lock:
                print(f'{name}: PATCH-DOES-NOT-APPLY {p.stdout.strip()[:200]}'); bad[0] += 1
            continue
        out = subprocess.run(['/verif/bin/govc', 'dev'] + d['funcs'].split(), capture_output=True, text=True, env=env).stdout
        subprocess.check_call(['patch', '-R', '-p1', '-s', '-d', scratch, '-i', patch])
        fails = [l.split()[-2] for l in out.splitlines() if l.strip().startswith('FAIL') and '/aux/' not in l]
        fails = [f for f in fails if f not in KNOWN_OPEN]
        unsup = [l.strip() for l in out.splitlines() if 'UNSUPPORTED' in l or 'load error' in l]
        if d['expect'] == 'none':
            ok = not fails and not unsup
        else:
            ok = any(re.search(d['expect'], f) for f in fails) or (d['expect'] == 'hint-mismatch' and bool(unsup))
        with out_lock:
            print(f"{name}: {'ok' if ok else 'NOT-AS-EXPECTED'}  expect={d['expect']}  failed={fails[:3]} {unsup[:1]}", flush=True)
            bad[0] += 0 if ok else 1


try:
    ts = [threading.Thread(target=worker, args=(i,)) for i in range(min(jobs, max(1, len(rows))))]
    for t in ts:
        t.start()
    for t in ts:
        t.join()
    print('selftest:', 'all rows behave' if bad[0] == 0 else f'{bad[0]} row(s) misbehave')
    sys.exit(1 if bad[0] else 0)
finally:
    shutil.rmtree(base, ignore_errors=True)
