package vc

import (
	"fmt"
	"go/ast"
	"go/parser"
	"go/token"
	"go/types"
	"regexp"
	"sort"
	"strings"
)

func sortStrings(s []string) { sort.Strings(s) }

// ---------------------------------------------------------------------------------------------
// type-checking contract clauses in the scope of the function they annotate

var reRet = regexp.MustCompile(`^ret(\d+)$`)

// scopeOf returns (package, position, signature) used to check the clauses of c.
type clauseScope struct {
	pkg   *types.Package
	pos   token.Pos
	ftype *ast.FuncType
	decl  *ast.FuncDecl
	info  *types.Info
}

func (p *Program) scopeFor(c *Contract) (*clauseScope, error) {
	pkg := p.Pkgs[c.Pkg]
	if pkg == nil {
		return nil, fmt.Errorf("package %s not loaded", c.Pkg)
	}
	if fi := p.ByKey[c.Pkg+":"+c.Key]; fi != nil && !c.NoBody {
		if fi.Decl.Body == nil {
			return nil, fmt.Errorf("%s has no body", c.Key)
		}
		pos := fi.Decl.Body.Rbrace
		if c.ScopeEntry {
			pos = fi.Decl.Body.Lbrace + 1
		}
		return &clauseScope{pkg: pkg.Types, pos: pos, ftype: fi.Decl.Type, decl: fi.Decl, info: pkg.TypesInfo}, nil
	}
	// interface method: use the generated stub
	stub := p.ByKey[c.Pkg+":"+stubName(c.Key)]
	if stub == nil {
		return nil, fmt.Errorf("no stub for interface contract %s", c.Key)
	}
	return &clauseScope{pkg: pkg.Types, pos: stub.Decl.Body.Rbrace, ftype: stub.Decl.Type, decl: stub.Decl, info: pkg.TypesInfo}, nil
}

func stubName(key string) string { return "__iface_" + strings.ReplaceAll(key, ".", "_") }

// CheckClause type-checks cl (once) at position pos; results go to the program-wide contract info.
func (p *Program) CheckClause(c *Contract, cl *Clause, pos token.Pos, sc *clauseScope) error {
	if p.checked[cl] {
		return p.checkErr[cl]
	}
	p.checked[cl] = true
	// rename contract parameter names to the real ones, substitute retN
	ren := map[string]string{}
	if sc.decl != nil && c != nil && !c.NoBody {
		var real []string
		for _, f := range sc.ftype.Params.List {
			if len(f.Names) == 0 {
				real = append(real, "_")
			}
			for _, n := range f.Names {
				real = append(real, n.Name)
			}
		}
		for i, cn := range c.ParamName {
			if i < len(real) && cn != real[i] && cn != "_" && real[i] != "_" {
				ren[cn] = real[i]
			}
		}
		if sc.decl.Recv != nil && len(sc.decl.Recv.List) == 1 && len(sc.decl.Recv.List[0].Names) == 1 {
			rn := sc.decl.Recv.List[0].Names[0].Name
			if c.RecvName != "" && c.RecvName != rn {
				ren[c.RecvName] = rn
			}
		}
	}
	var resTypes []ast.Expr
	var resNames []string
	if sc.ftype != nil && sc.ftype.Results != nil {
		for _, r := range sc.ftype.Results.List {
			if len(r.Names) == 0 {
				resTypes = append(resTypes, r.Type)
				resNames = append(resNames, "")
			}
			for _, n := range r.Names {
				resTypes = append(resTypes, r.Type)
				resNames = append(resNames, n.Name)
			}
		}
	}
	if cl.orig == nil {
		cl.orig = cl.Expr
	}
	expr := cl.orig
	var rewrite func(n ast.Node) ast.Node
	bound := map[string]int{}
	rewrite = func(n ast.Node) ast.Node { return n }
	_ = rewrite
	expr = substIdents(expr, func(id *ast.Ident) ast.Expr {
		if bound[id.Name] > 0 {
			return nil
		}
		if m := reRet.FindStringSubmatch(id.Name); m != nil {
			var k int
			fmt.Sscanf(m[1], "%d", &k)
			if k < len(resTypes) {
				return &ast.CallExpr{Fun: &ast.IndexExpr{X: ast.NewIdent("__ret"), Index: resTypes[k]}, Args: []ast.Expr{&ast.BasicLit{Kind: token.INT, Value: fmt.Sprint(k)}}}
			}
		}
		if to, ok := ren[id.Name]; ok {
			return ast.NewIdent(to)
		}
		if c != nil {
			if to, ok := c.LocalRen[id.Name]; ok {
				return ast.NewIdent(to)
			}
		}
		return nil
	}, bound)
	expr = p.localizePkgNames(expr, sc, pos)
	cl.Expr = expr
	err := types.CheckExpr(p.Fset, sc.pkg, pos, expr, p.CInfo)
	if err != nil {
		key := "axiom"
		if c != nil {
			key = c.Key
		}
		err = fmt.Errorf("%s: contract clause [%s] of %s does not type-check: %v (hint-mismatch)", cl.Line, cl.Label, key, cleanErr(err))
	}
	p.checkErr[cl] = err
	return err
}

func cleanErr(err error) string {
	s := err.Error()
	if i := strings.LastIndex(s, ": "); i >= 0 && strings.Contains(s[:i], ".go:") {
		return s[i+2:]
	}
	return s
}

// substIdents rewrites free identifiers (not selector fields, not bound by function literals).
func substIdents(x ast.Expr, f func(*ast.Ident) ast.Expr, bound map[string]int) ast.Expr {
	switch n := x.(type) {
	case nil:
		return nil
	case *ast.Ident:
		if r := f(n); r != nil {
			return r
		}
		return n
	case *ast.ParenExpr:
		return &ast.ParenExpr{X: substIdents(n.X, f, bound)}
	case *ast.SelectorExpr:
		return &ast.SelectorExpr{X: substIdents(n.X, f, bound), Sel: n.Sel}
	case *ast.StarExpr:
		return &ast.StarExpr{X: substIdents(n.X, f, bound)}
	case *ast.UnaryExpr:
		return &ast.UnaryExpr{Op: n.Op, X: substIdents(n.X, f, bound)}
	case *ast.BinaryExpr:
		return &ast.BinaryExpr{X: substIdents(n.X, f, bound), Op: n.Op, Y: substIdents(n.Y, f, bound)}
	case *ast.IndexExpr:
		return &ast.IndexExpr{X: substIdents(n.X, f, bound), Index: substIdents(n.Index, f, bound)}
	case *ast.SliceExpr:
		return &ast.SliceExpr{X: substIdents(n.X, f, bound), Low: substIdents(n.Low, f, bound), High: substIdents(n.High, f, bound), Max: substIdents(n.Max, f, bound), Slice3: n.Slice3}
	case *ast.CallExpr:
		c := &ast.CallExpr{Fun: substIdents(n.Fun, f, bound), Ellipsis: n.Ellipsis}
		for _, a := range n.Args {
			c.Args = append(c.Args, substIdents(a, f, bound))
		}
		return c
	case *ast.TypeAssertExpr:
		return &ast.TypeAssertExpr{X: substIdents(n.X, f, bound), Type: n.Type}
	case *ast.KeyValueExpr:
		return &ast.KeyValueExpr{Key: n.Key, Value: substIdents(n.Value, f, bound)}
	case *ast.CompositeLit:
		c := &ast.CompositeLit{Type: n.Type}
		for _, el := range n.Elts {
			c.Elts = append(c.Elts, substIdents(el, f, bound))
		}
		return c
	case *ast.FuncLit:
		// parameters shadow
		var names []string
		for _, p := range n.Type.Params.List {
			for _, nm := range p.Names {
				names = append(names, nm.Name)
				bound[nm.Name]++
			}
		}
		body := &ast.BlockStmt{}
		for _, s := range n.Body.List {
			if r, ok := s.(*ast.ReturnStmt); ok {
				nr := &ast.ReturnStmt{}
				for _, res := range r.Results {
					nr.Results = append(nr.Results, substIdents(res, f, bound))
				}
				body.List = append(body.List, nr)
			} else {
				body.List = append(body.List, s)
			}
		}
		for _, nm := range names {
			bound[nm]--
		}
		return &ast.FuncLit{Type: n.Type, Body: body}
	}
	return x
}

// ---------------------------------------------------------------------------------------------
// evaluating specification expressions

// evalSpec evaluates a clause in st without side effects on st.
func (e *Exec) evalSpec(st *State, cl *Clause) Term {
	sub := st.Clone()
	e.spec++
	defer func() { e.spec-- }()
	t := e.eval(sub, cl.Expr)
	if t.Sort != SBool {
		e.unsupported(token.NoPos, "clause [%s] is not boolean (%s)", cl.Label, t.Sort)
		return True
	}
	return t
}

// conjuncts splits a clause expression into the conjuncts of its conclusion: A && B, __implies(P, A && B) and
// nested combinations; quantifiers are not entered.
func conjuncts(x ast.Expr) []ast.Expr {
	switch v := x.(type) {
	case *ast.ParenExpr:
		return conjuncts(v.X)
	case *ast.BinaryExpr:
		if v.Op == token.LAND {
			return append(conjuncts(v.X), conjuncts(v.Y)...)
		}
	case *ast.CallExpr:
		if id, ok := v.Fun.(*ast.Ident); ok && id.Name == "__implies" && len(v.Args) == 2 {
			var out []ast.Expr
			for _, c := range conjuncts(v.Args[1]) {
				out = append(out, &ast.CallExpr{Fun: v.Fun, Args: []ast.Expr{v.Args[0], c}})
			}
			return out
		}
	}
	return []ast.Expr{x}
}

// evalSpecParts evaluates the conjuncts of a clause separately (nil if it has only one).
func (e *Exec) evalSpecParts(st *State, cl *Clause) []Term {
	cs := conjuncts(cl.Expr)
	if len(cs) < 2 {
		return nil
	}
	var out []Term
	for _, c := range cs {
		if ps := e.ghostCallParts(st, c); len(ps) > 1 {
			out = append(out, ps...)
			continue
		}
		sub := st.Clone()
		e.spec++
		t := e.eval(sub, c)
		e.spec--
		if t.Sort != SBool {
			return nil
		}
		out = append(out, t)
	}
	return out
}

// ghostCallParts: if x is (an implication whose conclusion is) a call of a single-return ghost predicate
// whose body is a conjunction, evaluate the conjuncts of the body separately.
func (e *Exec) ghostCallParts(st *State, x ast.Expr) []Term {
	var hyp ast.Expr
	if c, ok := x.(*ast.CallExpr); ok {
		if id, ok := c.Fun.(*ast.Ident); ok && id.Name == "__implies" && len(c.Args) == 2 {
			hyp = c.Args[0]
			x = c.Args[1]
		}
	}
	for {
		if p, ok := x.(*ast.ParenExpr); ok {
			x = p.X
		} else {
			break
		}
	}
	call, ok := x.(*ast.CallExpr)
	if !ok {
		return nil
	}
	var fn *types.Func
	var recvExpr ast.Expr
	switch f := call.Fun.(type) {
	case *ast.Ident:
		fn, _ = e.objOf(f).(*types.Func)
	case *ast.SelectorExpr:
		if sel := e.selectionOf(f); sel != nil && sel.Kind() == types.MethodVal {
			fn, _ = sel.Obj().(*types.Func)
			recvExpr = f.X
		} else {
			fn, _ = e.objOf(f.Sel).(*types.Func)
		}
	}
	if fn == nil {
		return nil
	}
	fi := e.P.Funcs[fn]
	if fi == nil || fi.Decl.Body == nil || len(fi.Decl.Body.List) != 1 || !isReturn(fi.Decl.Body.List[0]) {
		return nil
	}
	if pc := e.P.PC[pkgPathOf(fn)]; pc != nil && (pc.Opaque[fi.Key] || pc.Uninterp[fi.Key] || pc.GhostFields[fn.Name()]) {
		return nil
	}
	ret := fi.Decl.Body.List[0].(*ast.ReturnStmt)
	if len(ret.Results) != 1 {
		return nil
	}
	cs := conjuncts(ret.Results[0])
	if len(cs) < 2 {
		return nil
	}
	e.spec++
	defer func() { e.spec-- }()
	sub := st.Clone()
	var recv Term
	if recvExpr != nil {
		recv = e.eval(sub, recvExpr)
	}
	sig := fn.Type().(*types.Signature)
	args := e.evalArgs(sub, call, sig)
	var h Term = True
	if hyp != nil {
		h = e.eval(sub, hyp)
	}
	f := e.pushFrame(fi, fi.Pkg.TypesInfo)
	defer e.popFrame()
	e.bindSignature(sub, f, fi.Decl, fi.Decl.Type, recv, args)
	var out []Term
	for _, c := range cs {
		t := e.eval(sub.Clone(), c)
		if t.Sort != SBool {
			return nil
		}
		out = append(out, Implies(h, t))
	}
	return out
}

func (e *Exec) evalSpecExpr(st *State, x ast.Expr) Term {
	sub := st.Clone()
	e.spec++
	defer func() { e.spec-- }()
	return e.eval(sub, x)
}

func (e *Exec) quantifier(st *State, call *ast.CallExpr, forall bool) Term {
	lit, ok := call.Args[0].(*ast.FuncLit)
	if !ok {
		e.unsupported(call.Pos(), "quantifier argument must be a function literal")
		return True
	}
	var binders []string
	var guards []Term
	saved := map[types.Object]Term{}
	var objs []types.Object
	for _, p := range lit.Type.Params.List {
		for _, n := range p.Names {
			o := e.objOf(n)
			if o == nil {
				e.unsupported(n.Pos(), "unresolved binder %s", n.Name)
				continue
			}
			e.Ctx.fresh++
			name := fmt.Sprintf("%s!q%d", sanitize(n.Name), e.Ctx.fresh)
			srt := e.S.SortOf(o.Type())
			binders = append(binders, fmt.Sprintf("(%s %s)", name, srt))
			if old, has := e.bound[o]; has {
				saved[o] = old
			}
			e.bound[o] = Term{name, srt}
			objs = append(objs, o)
			if f := e.typeFact(Term{name, srt}, o.Type()); f.S != "true" {
				guards = append(guards, f)
			}
		}
	}
	var body Term = True
	if len(lit.Body.List) == 1 {
		if r, ok := lit.Body.List[0].(*ast.ReturnStmt); ok && len(r.Results) == 1 {
			body = e.eval(st, r.Results[0])
		}
	}
	for _, o := range objs {
		if old, has := saved[o]; has {
			e.bound[o] = old
		} else {
			delete(e.bound, o)
		}
	}
	if len(binders) == 0 {
		return body
	}
	g := And(guards...)
	if forall {
		return Term{fmt.Sprintf("(forall (%s) %s)", strings.Join(binders, " "), Implies(g, body).S), SBool}
	}
	return Term{fmt.Sprintf("(exists (%s) %s)", strings.Join(binders, " "), And(g, body).S), SBool}
}

func (e *Exec) evalGhostBuiltin(st *State, call *ast.CallExpr, name string) Term {
	switch name {
	case "__old":
		old := e.specOld
		if old == nil {
			old = e.old
		}
		sub := old.Clone()
		// bound variables and the path condition of the current state stay
		sub.PC = st.PC
		savedOld := e.specOld
		v := e.eval(sub, call.Args[0])
		e.specOld = savedOld
		return v
	case "__implies":
		return Implies(e.eval(st, call.Args[0]), e.eval(st, call.Args[1]))
	case "__iff":
		return Eq(e.eval(st, call.Args[0]), e.eval(st, call.Args[1]))
	case "__forall":
		return e.quantifier(st, call, true)
	case "__exists":
		return e.quantifier(st, call, false)
	case "__ite":
		return Ite(e.eval(st, call.Args[0]), e.eval(st, call.Args[1]), e.eval(st, call.Args[2]))
	case "__ret":
		return e.specResult(call)
	case "__div":
		return e.tdiv(e.eval(st, call.Args[0]), e.eval(st, call.Args[1]))
	case "__mod":
		return e.tmod(e.eval(st, call.Args[0]), e.eval(st, call.Args[1]))
	case "__fresh":
		old := e.specOld
		if old == nil {
			old = e.old
		}
		v := e.eval(st, call.Args[0])
		return And(Gt(v, old.Alloc), Le(v, st.Alloc))
	case "__allocated":
		v := e.eval(st, call.Args[0])
		return And(Ge(v, Int(0)), Le(v, st.Alloc))
	case "__alloc0":
		old := e.specOld
		if old == nil {
			old = e.old
		}
		v := e.eval(st, call.Args[0])
		return And(Ge(v, Int(0)), Le(v, old.Alloc))
	case "__called":
		tv, _ := e.tvOf(call.Args[0])
		name := strings.Trim(tv.Value.ExactString(), "\"")
		if o := e.calledObj[name]; o != nil {
			if v, ok := st.Vars[o]; ok {
				return v
			}
		}
		if len(e.frames) > 1 {
			// evaluated at a call site of the function whose contract mentions its own call history
			return e.Ctx.Fresh("called_"+sanitize(name), SBool)
		}
		// the function contains no call of that name: it was never called (a clause that requires the call then fails
		// as an obligation, by its own name, instead of being reported as a hint mismatch)
		return False
	case "__lastret", "__lastretT":
		tv, _ := e.tvOf(call.Args[0])
		name := strings.Trim(tv.Value.ExactString(), "\"")
		tv2, _ := e.tvOf(call.Args[1])
		i := 0
		fmt.Sscanf(tv2.Value.ExactString(), "%d", &i)
		if os := e.lastRetObj[name]; i < len(os) {
			if v, ok := st.Vars[os[i]]; ok {
				return v
			}
		}
		if len(e.frames) > 1 {
			// evaluated at a call site of the function whose contract mentions its own call history
			if t := e.typeOf(call); t != nil {
				if id, ok := call.Fun.(*ast.IndexExpr); ok && id != nil {
					// __lastretT[T]: the result has T's sort (an Int here made every caller's query ill-sorted)
					return e.Ctx.Fresh("lastret_"+sanitize(name), e.S.SortOf(t))
				}
				return e.Ctx.Fresh("lastret_"+sanitize(name), SInt)
			}
		}
		e.unsupported(call.Pos(), "__lastret(%q, %d): no such result", name, i)
		return Int(0)
	case "__cap":
		tv, _ := e.tvOf(call.Args[0])
		label := strings.Trim(tv.Value.ExactString(), "\"")
		if o := e.capObj[label]; o != nil {
			if v, ok := st.Vars[o]; ok {
				return v
			}
		}
		if len(e.frames) > 1 {
			if t := e.typeOf(call); t != nil {
				return e.Ctx.Fresh("cap_"+sanitize(label), e.S.SortOf(t))
			}
		}
		e.unsupported(call.Pos(), "__cap(%q): no such capture", label)
		return Int(0)
	case "__arg", "__argT":
		tv, _ := e.tvOf(call.Args[0])
		i := 0
		fmt.Sscanf(tv.Value.ExactString(), "%d", &i)
		if i < len(e.callArgs) {
			return e.callArgs[i]
		}
		e.unsupported(call.Pos(), "__arg(%d) outside a call-site assertion", i)
		return Int(0)
	case "__recv":
		return e.callRecv
	case "__eq":
		return Eq(e.eval(st, call.Args[0]), e.eval(st, call.Args[1]))
	case "__ranged":
		for i := len(e.vis) - 1; i >= 0; i-- {
			if e.vis[i].iter != nil {
				return e.vis[i].seq
			}
		}
		e.unsupported(call.Pos(), "__ranged outside a range-over-slice loop")
		return e.eval(st, call.Args[0])
	case "__perm":
		a, b := e.eval(st, call.Args[0]), e.eval(st, call.Args[1])
		if a.Sort != b.Sort || !strings.HasPrefix(a.Sort, "Sl_") {
			e.unsupported(call.Pos(), "__perm on %s / %s", a.Sort, b.Sort)
			return True
		}
		return And(Eq(e.S.SlLen(a), e.S.SlLen(b)), e.permPred(e.S.SlArr(a), e.S.SlArr(b), e.S.SlLen(a)))
	case "__json":
		v := e.evalUnboxed(st, call.Args[0])
		e.customEncodingObligations(e.typeOf(call.Args[0]), call.Pos())
		return e.jsonOf(v)
	case "__visset":
		for i := len(e.vis) - 1; i >= 0; i-- {
			if e.vis[i].vis != nil {
				return st.Vars[e.vis[i].vis]
			}
		}
		e.unsupported(call.Pos(), "__visset outside a range-over-map loop")
		return Int(0)
	case "__iter":
		for i := len(e.vis) - 1; i >= 0; i-- {
			if e.vis[i].cnt != nil {
				return st.Vars[e.vis[i].cnt]
			}
		}
		e.unsupported(call.Pos(), "__iter outside a for or range-over-map loop")
		return Int(0)
	case "__idx":
		for i := len(e.vis) - 1; i >= 0; i-- {
			if e.vis[i].iter != nil {
				return st.Vars[e.vis[i].iter]
			}
		}
		e.unsupported(call.Pos(), "__idx outside a range-over-slice loop")
		return Int(0)
	case "__vis", "__visn":
		for i := len(e.vis) - 1; i >= 0 && name == "__vis"; i-- {
			if e.vis[i].vis != nil {
				k := e.evalUnboxed(st, call.Args[0])
				return Select(st.Vars[e.vis[i].vis], k)
			}
		}
		if len(e.vis) == 0 {
			e.unsupported(call.Pos(), "__vis outside a range-over-map loop")
			return True
		}
		vi := e.vis[len(e.vis)-1]
		arg := call.Args[0]
		if name == "__visn" {
			tv, _ := e.tvOf(call.Args[0])
			n := 0
			fmt.Sscanf(tv.Value.ExactString(), "%d", &n)
			for _, c := range e.vis {
				if c.ord == n {
					vi = c
				}
			}
			arg = call.Args[1]
		}
		k := e.evalUnboxed(st, arg)
		return Select(st.Vars[vi.vis], k)
	case "__dom":
		m := e.eval(st, call.Args[0])
		mt := e.typeOf(call.Args[0]).Underlying().(*types.Map)
		mk := e.mapKey(mt)
		// value: the domain array itself is not a Go value; only usable under __in / __domeq
		return Select(e.heapGet(st, mk.dom), m)
	case "__in":
		k := e.evalUnboxed(st, call.Args[0])
		set := e.evalSet(st, call.Args[1])
		return Select(set, k)
	case "__domeq":
		return Eq(e.evalSet(st, call.Args[0]), e.evalSet(st, call.Args[1]))
	case "__mapeq":
		a, b := e.eval(st, call.Args[0]), e.eval(st, call.Args[1])
		mt := e.typeOf(call.Args[0]).Underlying().(*types.Map)
		mk := e.mapKey(mt)
		sa, sb := st, st
		_ = sb
		return And(Eq(Select(e.heapGet(sa, mk.dom), a), Select(e.heapGet(st, mk.dom), b)),
			Eq(Select(e.heapGet(sa, mk.val), a), Select(e.heapGet(st, mk.val), b)),
			Eq(Select(e.heapGet(sa, mk.ln), a), Select(e.heapGet(st, mk.ln), b)))
	case "__len":
		v := e.evalUnboxed(st, call.Args[0])
		if strings.HasPrefix(v.Sort, "Sl_") {
			return e.S.SlLen(v)
		}
		e.unsupported(call.Pos(), "__len of %s", v.Sort)
		return Int(0)
	case "__seqeq":
		a, b := e.evalUnboxed(st, call.Args[0]), e.evalUnboxed(st, call.Args[1])
		if a.Sort != b.Sort || !strings.HasPrefix(a.Sort, "Sl_") {
			if a.Sort == b.Sort {
				return Eq(a, b)
			}
			e.unsupported(call.Pos(), "__seqeq on %s / %s", a.Sort, b.Sort)
			return True
		}
		e.Ctx.fresh++
		i := fmt.Sprintf("i!q%d", e.Ctx.fresh)
		return And(Eq(e.S.SlLen(a), e.S.SlLen(b)),
			Term{fmt.Sprintf("(forall ((%s Int)) (=> (and (<= 0 %s) (< %s %s)) (= (select %s %s) (select %s %s))))", i, i, i, e.S.SlLen(a).S, e.S.SlArr(a).S, i, e.S.SlArr(b).S, i), SBool})
	case "__sorted":
		a := e.evalUnboxed(st, call.Args[0])
		e.Ctx.fresh++
		i, j := fmt.Sprintf("i!q%d", e.Ctx.fresh), fmt.Sprintf("j!q%d", e.Ctx.fresh)
		return Term{fmt.Sprintf("(forall ((%s Int) (%s Int)) (=> (and (<= 0 %s) (<= %s %s) (< %s %s)) (<= (select %s %s) (select %s %s))))", i, j, i, i, j, j, e.S.SlLen(a).S, e.S.SlArr(a).S, i, e.S.SlArr(a).S, j), SBool}
	case "__count":
		return e.countSet(st, call)
	case "__countseq":
		return e.countSeq(st, call)
	case "__sumseq":
		return e.sumSeq(st, call)
	case "__enum":
		return e.enumPred(st, call)
	case "__enumlemma":
		return e.enumLemma(st, call)
	case "__sameref":
		// reference identity of two maps / pointers / channels (Go itself only compares maps with nil)
		a, b := e.eval(st, call.Args[0]), e.eval(st, call.Args[1])
		if a.Sort != SInt || b.Sort != SInt {
			e.unsupported(call.Pos(), "__sameref on %s / %s", a.Sort, b.Sort)
			return False
		}
		return Eq(a, b)
	case "__samebytes":
		// content equality of two byte slices (nil and empty are the same content)
		a, b := e.evalUnboxed(st, call.Args[0]), e.evalUnboxed(st, call.Args[1])
		if a.Sort != SBytes || b.Sort != SBytes {
			e.unsupported(call.Pos(), "__samebytes on %s / %s", a.Sort, b.Sort)
			return True
		}
		return Or(Eq(a, b), And(Eq(app(SInt, "bytes_len", a), Int(0)), Eq(app(SInt, "bytes_len", b), Int(0))))
	case "__owned":
		// __owned(x): the slice expression x cannot share its backing array with a slice parameter of the verified
		// function (syntactic data-flow: x is not a parameter, nor assigned, re-sliced or appended from one).
		// __owned(__arg(0)) at a send statement refers to the expression being sent.
		x := call.Args[0]
		if c, ok := x.(*ast.CallExpr); ok {
			if id, ok := c.Fun.(*ast.Ident); ok && (id.Name == "__arg") && e.sendValue != nil {
				x = e.sendValue
			} else if ok && id.Name == "__arg" && len(c.Args) == 1 && e.callArgExprs != nil {
				// __owned(__arg(i)) at a call: the i-th argument expression
				if tv, ok := e.tvOf(c.Args[0]); ok && tv.Value != nil {
					i := 0
					fmt.Sscanf(tv.Value.ExactString(), "%d", &i)
					if i < len(e.callArgExprs) {
						x = e.callArgExprs[i]
					}
				}
			}
		}
		// &v of a local that is itself not borrowed: a fresh object; &x.f: part of a pre-existing object
		if u, ok := x.(*ast.UnaryExpr); ok && u.Op == token.AND {
			switch ux := u.X.(type) {
			case *ast.Ident:
				x = ux
			case *ast.CompositeLit:
				return True
			default:
				return False
			}
		}
		id := rootIdent(x)
		if id == nil {
			if _, isCall := x.(*ast.CallExpr); isCall {
				return True // a fresh result (make, conversion of a call result)
			}
			return False
		}
		o := e.objOf(id)
		if o == nil && e.Fn != nil {
			o = e.frames[0].info.Uses[id]
		}
		if o != nil && e.tainted != nil && e.tainted[o] {
			return False
		}
		if o != nil && e.borrowed != nil && e.borrowed[o] {
			return False
		}
		return True
	case "__dyn":
		v := e.eval(st, call.Args[0])
		tv, _ := e.tvOf(call.Args[1])
		e.declDyn()
		want := strings.Trim(tv.Value.ExactString(), "\"")
		if o, ok := types.Universe.Lookup(want).(*types.TypeName); ok {
			id := e.dynID(o.Type())
			return And(Not(Eq(v, Int(0))), Eq(app(SInt, "dyntype", v), Int(int64(id))))
		}
		for k, id := range e.dynIDs {
			if k == want || strings.HasSuffix(k, "."+want) || strings.HasSuffix(k, "/"+want) {
				return And(Not(Eq(v, Int(0))), Eq(app(SInt, "dyntype", v), Int(int64(id))))
			}
		}
		// not boxed yet in this function: a named type of a loaded package ("Event" stands for *Event when the
		// type is a struct, as cached values are pointers)
		var found types.Type
		lookIn := func(pk *types.Package) {
			if found != nil || pk == nil {
				return
			}
			if o, ok := pk.Scope().Lookup(want).(*types.TypeName); ok {
				found = o.Type()
				if _, isStruct := found.Underlying().(*types.Struct); isStruct {
					found = types.NewPointer(found)
				}
			}
		}
		if e.Fn != nil && e.Fn.Pkg != nil {
			lookIn(e.Fn.Pkg.Types)
		}
		if found == nil {
			var paths []string
			for pp := range e.P.Pkgs {
				paths = append(paths, pp)
			}
			sortStrings(paths)
			for _, pp := range paths {
				lookIn(e.P.Pkgs[pp].Types)
			}
		}
		if found != nil {
			id := e.dynID(found)
			return And(Not(Eq(v, Int(0))), Eq(app(SInt, "dyntype", v), Int(int64(id))))
		}
		e.unsupported(call.Pos(), "__dyn: unknown dynamic type %s", want)
		return True
	case "__upd":
		m := e.eval(st, call.Args[0])
		k := e.eval(st, call.Args[1])
		v := e.eval(st, call.Args[2])
		return e.S.MkVM(m.Sort, Store(e.S.VMDom(m), k, True), Store(e.S.VMVal(m), k, v))
	case "__del":
		m := e.eval(st, call.Args[0])
		k := e.eval(st, call.Args[1])
		return e.S.MkVM(m.Sort, Store(e.S.VMDom(m), k, False), e.S.VMVal(m))
	case "__emptymap":
		return e.S.Zero(e.S.SortOf(e.typeOf(call)))
	case "__unchanged":
		old := e.specOld
		if old == nil {
			old = e.old
		}
		var cs []Term
		for _, a := range call.Args {
			now := e.evalUnboxed(st, a)
			sub := old.Clone()
			sub.PC = st.PC
			before := e.evalUnboxed(sub, a)
			cs = append(cs, Eq(now, before))
		}
		return And(cs...)
	}
	e.unsupported(call.Pos(), "ghost builtin %s", name)
	return True
}

// evalUnboxed evaluates an argument passed to an `any` parameter of a ghost builtin without boxing.
func (e *Exec) evalUnboxed(st *State, x ast.Expr) Term { return e.eval(st, x) }

// evalSet evaluates a set-valued ghost expression (__dom(m), or a map used as a set of its keys).
func (e *Exec) evalSet(st *State, x ast.Expr) Term {
	if c, ok := x.(*ast.CallExpr); ok {
		if id, ok := c.Fun.(*ast.Ident); ok && (id.Name == "__dom" || id.Name == "__visset") {
			return e.eval(st, x)
		}
		if id, ok := c.Fun.(*ast.Ident); ok && id.Name == "__old" {
			old := e.specOld
			if old == nil {
				old = e.old
			}
			sub := old.Clone()
			sub.PC = st.PC
			return e.evalSet(sub, c.Args[0])
		}
	}
	t := e.typeOf(x)
	if _, ok := isGmap(t); ok {
		return e.S.VMDom(e.eval(st, x))
	}
	if mt, ok := t.Underlying().(*types.Map); ok {
		m := e.eval(st, x)
		mk := e.mapKey(mt)
		dom := e.heapGet(st, mk.dom)
		// the nil map has no entries in any reachable heap (a write through a nil map panics)
		if !strings.Contains(dom.S, "!q") {
			ks := e.S.SortOf(mt.Key())
			e.Ctx.Assume(True, Eq(Select(dom, Int(0)), Term{fmt.Sprintf("((as const %s) false)", ArraySort(ks, SBool)), ArraySort(ks, SBool)}))
		}
		return Select(dom, m)
	}
	v := e.eval(st, x)
	if strings.HasPrefix(v.Sort, "VM_") {
		return e.S.VMDom(v)
	}
	return v
}

// ---------------------------------------------------------------------------------------------
// counting (fold over a set / over a sequence prefix). The defining axioms are the engine's
// trusted "fold over a set is order independent" rule.

func (e *Exec) lambdaBody(st *State, lit *ast.FuncLit) (types.Object, ast.Expr) {
	if len(lit.Type.Params.List) != 1 || len(lit.Type.Params.List[0].Names) != 1 || len(lit.Body.List) != 1 {
		return nil, nil
	}
	r, ok := lit.Body.List[0].(*ast.ReturnStmt)
	if !ok || len(r.Results) != 1 {
		return nil, nil
	}
	return e.objOf(lit.Type.Params.List[0].Names[0]), r.Results[0]
}

// countFun declares (once per lambda text and argument signature) the fold function cnt_N(set, fv...)
// with its axioms and returns its name and the actual free-variable arguments.
func (e *Exec) countFun(st *State, call *ast.CallExpr, lit *ast.FuncLit, seq bool, seqSort string) (string, []Term, string) {
	param, body := e.lambdaBody(st, lit)
	if param == nil {
		e.unsupported(call.Pos(), "__count needs func(k K) bool { return e }")
		return "", nil, ""
	}
	ks := e.S.SortOf(param.Type())
	bv := Term{"cntk!q0", ks}
	old, had := e.bound[param]
	e.bound[param] = bv
	p := e.eval(st, body)
	if had {
		e.bound[param] = old
	} else {
		delete(e.bound, param)
	}
	// free symbols of p other than the bound variable (quantifier-bound variables of enclosing
	// quantifiers contain '!q' and are passed as arguments too)
	syms := e.Ctx.Symbols(p.S)
	var fv []Term
	var fvs []string
	for _, s := range syms {
		fv = append(fv, Term{s, e.Ctx.ConstSort(s)})
		fvs = append(fvs, e.Ctx.ConstSort(s))
	}
	for _, t := range e.boundInText(p.S) {
		if t.S != "cntk!q0" {
			fv = append(fv, t)
			fvs = append(fvs, t.Sort)
		}
	}
	fv, fvs = orderByFirstUse(p.S, fv)
	txt := p.S
	// canonical text: replace free symbols by positional names
	canon := txt
	for i, a := range fv {
		canon = replaceSymbol(canon, a.S, fmt.Sprintf("$a%d", i))
	}
	key := fmt.Sprintf("%v|%s|%s|%s", seq, ks, strings.Join(fvs, ","), canon)
	name, ok := e.cntDefs[key]
	if ok {
		return name, fv, ks
	}
	name = fmt.Sprintf("cnt_%d", len(e.cntDefs)+1)
	e.cntDefs[key] = name
	var params []string
	var pnames []string
	for i, s := range fvs {
		params = append(params, fmt.Sprintf("(a%d %s)", i, s))
		pnames = append(pnames, fmt.Sprintf("a%d", i))
	}
	pred := canon
	for i := range fv {
		pred = replaceSymbol(pred, fmt.Sprintf("$a%d", i), fmt.Sprintf("a%d", i))
	}
	argl := ""
	if len(pnames) > 0 {
		argl = " " + strings.Join(pnames, " ")
	}
	if !seq {
		setSort := ArraySort(ks, SBool)
		e.Ctx.DeclareFun(name, append([]string{setSort}, fvs...), SInt)
		e.Ctx.Axiom(fmt.Sprintf("(forall ((s %s) %s) (! (>= (%s s%s) 0) :pattern ((%s s%s))))", setSort, strings.Join(params, " "), name, argl, name, argl))
		e.Ctx.Axiom(fmt.Sprintf("(forall (%s) (= (%s ((as const %s) false)%s) 0))", strings.Join(append(params, "(dummy Int)"), " "), name, setSort, argl))
		e.Ctx.Axiom(fmt.Sprintf("(forall ((s %s) (cntk!q0 %s) %s) (! (=> (not (select s cntk!q0)) (= (%s (store s cntk!q0 true)%s) (+ (%s s%s) (ite %s 1 0)))) :pattern ((%s (store s cntk!q0 true)%s))))",
			setSort, ks, strings.Join(params, " "), name, argl, name, argl, pred, name, argl))
	} else {
		// cnt(seqarr, n, fv...) = number of i in [0,n) with P(seqarr[i])
		arrSort := ArraySort(SInt, ks)
		e.Ctx.DeclareFun(name, append([]string{arrSort, SInt}, fvs...), SInt)
		predAt := replaceSymbol(pred, "cntk!q0", "(select s (- n 1))")
		e.Ctx.Axiom(fmt.Sprintf("(forall ((s %s) (n Int) %s) (! (=> (<= n 0) (= (%s s n%s) 0)) :pattern ((%s s n%s))))", arrSort, strings.Join(params, " "), name, argl, name, argl))
		e.Ctx.Axiom(fmt.Sprintf("(forall ((s %s) (n Int) %s) (! (=> (> n 0) (= (%s s n%s) (+ (%s s (- n 1)%s) (ite %s 1 0)))) :pattern ((%s s n%s))))",
			arrSort, strings.Join(params, " "), name, argl, name, argl, predAt, name, argl))
	}
	return name, fv, ks
}

// orderByFirstUse orders the free symbols of a lambda body by their first occurrence in its text, so that two
// bodies of the same shape over differently named symbols get the same canonical form (and fold function).
func orderByFirstUse(text string, fv []Term) ([]Term, []string) {
	first := map[string]int{}
	tok := strings.FieldsFunc(text, func(r rune) bool { return r == '(' || r == ')' || r == ' ' || r == '\n' || r == '\t' })
	for i, t := range tok {
		if _, ok := first[t]; !ok {
			first[t] = i
		}
	}
	sort.SliceStable(fv, func(i, j int) bool { return first[fv[i].S] < first[fv[j].S] })
	var fvs []string
	for _, t := range fv {
		fvs = append(fvs, t.Sort)
	}
	return fv, fvs
}

func replaceSymbol(s, sym, by string) string {
	var b strings.Builder
	i := 0
	for i < len(s) {
		j := strings.Index(s[i:], sym)
		if j < 0 {
			b.WriteString(s[i:])
			break
		}
		j += i
		end := j + len(sym)
		okL := j == 0 || strings.ContainsRune("() \n\t", rune(s[j-1]))
		okR := end == len(s) || strings.ContainsRune("() \n\t", rune(s[end]))
		if okL && okR {
			b.WriteString(s[i:j])
			b.WriteString(by)
		} else {
			b.WriteString(s[i:end])
		}
		i = end
	}
	return b.String()
}

// boundInText returns the quantifier-bound variables (of enclosing quantifiers) that occur in s.
func (e *Exec) boundInText(s string) []Term {
	var out []Term
	seen := map[string]bool{}
	for _, t := range e.bound {
		if seen[t.S] {
			continue
		}
		if replaceSymbol(s, t.S, "\x00") != s {
			seen[t.S] = true
			out = append(out, t)
		}
	}
	sort.Slice(out, func(i, j int) bool { return out[i].S < out[j].S })
	return out
}

func (e *Exec) countSet(st *State, call *ast.CallExpr) Term {
	lit, ok := call.Args[1].(*ast.FuncLit)
	if !ok {
		e.unsupported(call.Pos(), "__count(set, func...)")
		return Int(0)
	}
	set := e.evalSet(st, call.Args[0])
	name, fv, _ := e.countFun(st, call, lit, false, "")
	if name == "" {
		return Int(0)
	}
	e.Assumed["fold over a finite set (__count) is defined by its empty/insert equations (order independent)"] = true
	return app(SInt, name, append([]Term{set}, fv...)...)
}

func (e *Exec) countSeq(st *State, call *ast.CallExpr) Term {
	lit, ok := call.Args[2].(*ast.FuncLit)
	if !ok {
		e.unsupported(call.Pos(), "__countseq(s, n, func...)")
		return Int(0)
	}
	s := e.eval(st, call.Args[0])
	n := e.eval(st, call.Args[1])
	if !strings.HasPrefix(s.Sort, "Sl_") {
		e.unsupported(call.Pos(), "__countseq on %s", s.Sort)
		return Int(0)
	}
	name, fv, _ := e.countFun(st, call, lit, true, s.Sort)
	if name == "" {
		return Int(0)
	}
	return app(SInt, name, append([]Term{e.S.SlArr(s), n}, fv...)...)
}

// enumPred: __enum(s, set, P) — "slice s enumerates, without duplicates, exactly the keys k of set
// with P(k)". Its consequence (trusted rule: counting over a duplicate-free enumeration equals
// counting over the set) is instantiated for every count function declared so far and later.
func (e *Exec) enumPred(st *State, call *ast.CallExpr) Term {
	s := e.eval(st, call.Args[0])
	set := e.evalSet(st, call.Args[1])
	lit, ok := call.Args[2].(*ast.FuncLit)
	if !ok {
		e.unsupported(call.Pos(), "__enum(s, set, func...)")
		return True
	}
	param, body := e.lambdaBody(st, lit)
	if param == nil {
		return True
	}
	ks := e.S.SortOf(param.Type())
	e.Ctx.fresh++
	k := Term{fmt.Sprintf("k!q%d", e.Ctx.fresh), ks}
	old, had := e.bound[param]
	e.bound[param] = k
	p := e.eval(st, body)
	if had {
		e.bound[param] = old
	} else {
		delete(e.bound, param)
	}
	i, j := fmt.Sprintf("i!q%d", e.Ctx.fresh), fmt.Sprintf("j!q%d", e.Ctx.fresh)
	arr, ln := e.S.SlArr(s).S, e.S.SlLen(s).S
	nodup := fmt.Sprintf("(forall ((%s Int) (%s Int)) (=> (and (<= 0 %s) (< %s %s) (< %s %s)) (not (= (select %s %s) (select %s %s)))))", i, j, i, i, j, j, ln, arr, i, arr, j)
	sound := fmt.Sprintf("(forall ((%s Int)) (! (=> (and (<= 0 %s) (< %s %s)) (let ((%s (select %s %s))) (and (select %s %s) %s))) :pattern ((select %s %s))))", i, i, i, ln, k.S, arr, i, set.S, k.S, p.S, arr, i)
	complete := fmt.Sprintf("(forall ((%s %s)) (=> (and (select %s %s) %s) (exists ((%s Int)) (and (<= 0 %s) (< %s %s) (= (select %s %s) %s)))))", k.S, ks, set.S, k.S, p.S, i, i, i, ln, arr, i, k.S)
	e.Ctx.NeedsQuant = true
	return Term{fmt.Sprintf("(and %s %s %s)", nodup, sound, complete), SBool}
}

// enumLemma: __enumlemma(s, set, P, Q, PQ) — applies the (assumed, mathematical) rule "counting Q over a
// duplicate-free enumeration s of {k in set | P(k)} equals counting PQ over set, where PQ(k) = P(k) && Q(k)".
// The instance is added as a fact; the call itself evaluates to true.
func (e *Exec) enumLemma(st *State, call *ast.CallExpr) Term {
	if len(call.Args) != 5 {
		e.unsupported(call.Pos(), "__enumlemma(s, set, P, Q, PQ)")
		return True
	}
	var lits [3]*ast.FuncLit
	for i := 0; i < 3; i++ {
		l, ok := call.Args[2+i].(*ast.FuncLit)
		if !ok {
			e.unsupported(call.Pos(), "__enumlemma(s, set, P, Q, PQ): function literals expected")
			return True
		}
		lits[i] = l
	}
	enum := e.enumPred(st, call)
	s := e.eval(st, call.Args[0])
	set := e.evalSet(st, call.Args[1])
	if !strings.HasPrefix(s.Sort, "Sl_") {
		e.unsupported(call.Pos(), "__enumlemma on %s", s.Sort)
		return True
	}
	qn, qfv, _ := e.countFun(st, call, lits[1], true, s.Sort)
	pqn, pqfv, ks := e.countFun(st, call, lits[2], false, "")
	if qn == "" || pqn == "" {
		return True
	}
	e.Ctx.fresh++
	k := Term{fmt.Sprintf("k!q%d", e.Ctx.fresh), ks}
	var bodies [3]Term
	for i, l := range lits {
		param, body := e.lambdaBody(st, l)
		if param == nil {
			return True
		}
		old, had := e.bound[param]
		e.bound[param] = k
		bodies[i] = e.eval(st, body)
		if had {
			e.bound[param] = old
		} else {
			delete(e.bound, param)
		}
	}
	hyp := fmt.Sprintf("(forall ((%s %s)) (=> (select %s %s) (= %s (and %s %s))))", k.S, ks, set.S, k.S, bodies[2].S, bodies[0].S, bodies[1].S)
	seqc := app(SInt, qn, append([]Term{e.S.SlArr(s), e.S.SlLen(s)}, qfv...)...)
	setc := app(SInt, pqn, append([]Term{set}, pqfv...)...)
	fact := Term{fmt.Sprintf("(=> (and %s %s) (= %s %s))", enum.S, hyp, seqc.S, setc.S), SBool}
	e.Ctx.NeedsQuant = true
	e.Ctx.Assume(True, fact)
	e.Assumed["mathematical rule (__enumlemma): counting over a duplicate-free enumeration of a finite set equals counting over the set"] = true
	return True
}

// ---------------------------------------------------------------------------------------------
// modifies designators

type designator struct {
	key   string
	ref   Term // object whose location is modified; "" means every object
	whole bool
	mapOf bool
}

// designators parses a modifies entry in state st (callee parameters must be bound in st.Vars).
//
//	x.f          field f of object x
//	x.f[*]       contents of the map stored in x.f (and x.f itself is NOT included)
//	*p           the cell p points to
//	g_name(x)    ghost field
//	m[*]         contents of map m
func (e *Exec) designators(st *State, c *Contract, text string, sc *clauseScope) []designator {
	text = strings.TrimSpace(text)
	if ks, ok := e.P.wildcardKeys(c, text, sc); ok {
		var ds []designator
		for _, k := range ks {
			// register the key with its sort
			e.ensureKey(k, c, text, sc)
			ds = append(ds, designator{key: k, whole: true})
		}
		return ds
	}
	mapContent := false
	if strings.HasSuffix(text, "[*]") {
		mapContent = true
		text = strings.TrimSuffix(text, "[*]")
	}
	cl := e.P.designatorClause(c, text)
	if cl == nil {
		e.unsupported(token.NoPos, "cannot parse modifies designator %q", text)
		return nil
	}
	if err := e.P.CheckClause(c, cl, sc.pos, sc); err != nil {
		e.unsupported(token.NoPos, "%v", err)
		return nil
	}
	x := cl.Expr
	for {
		if p, ok := x.(*ast.ParenExpr); ok {
			x = p.X
		} else {
			break
		}
	}
	e.spec++
	defer func() { e.spec-- }()
	sub := st.Clone()
	if mapContent {
		t := e.typeOf(x)
		mt, ok := t.Underlying().(*types.Map)
		if !ok {
			e.unsupported(token.NoPos, "designator %s[*]: not a map", text)
			return nil
		}
		m := e.eval(sub, x)
		mk := e.mapKey(mt)
		return []designator{{key: mk.dom, ref: m}, {key: mk.val, ref: m}, {key: mk.ln, ref: m}}
	}
	switch v := x.(type) {
	case *ast.SelectorExpr:
		sel := e.selectionOf(v)
		if sel != nil && sel.Kind() == types.FieldVal {
			// find the heap location: walk to the innermost pointer base
			return e.fieldDesignator(sub, v)
		}
	case *ast.StarExpr:
		ref := e.eval(sub, v.X)
		elem := e.typeOf(v.X).Underlying().(*types.Pointer).Elem()
		if su := structOf(elem); su != nil && !isPointer(elem) {
			var ds []designator
			for i := 0; i < su.NumFields(); i++ {
				ds = append(ds, designator{key: e.fieldKey(elem, su.Field(i)), ref: ref})
			}
			return ds
		}
		return []designator{{key: e.ptrKey(elem), ref: ref}}
	case *ast.CallExpr:
		var gid *ast.Ident
		if id, ok := v.Fun.(*ast.Ident); ok {
			gid = id
		} else if sel, ok := v.Fun.(*ast.SelectorExpr); ok {
			gid = sel.Sel
		}
		if id := gid; id != nil {
			if fn, ok := e.objOf(id).(*types.Func); ok {
				if pc := e.P.PC[pkgPathOf(fn)]; pc != nil && pc.GhostFields[fn.Name()] {
					ref := e.eval(sub, v.Args[0])
					sig := fn.Type().(*types.Signature)
					k := e.ghostKey(pkgPathOf(fn), strings.TrimPrefix(fn.Name(), "G_"), sig.Results().At(0).Type())
					return []designator{{key: k, ref: ref}}
				}
			}
		}
	}
	e.unsupported(token.NoPos, "unsupported modifies designator %q", text)
	return nil
}

// wildcardKeys: "any T.f" (field f of every T object) and "anymap T" (contents of every map of type T).
func (p *Program) wildcardKeys(c *Contract, text string, sc *clauseScope) ([]string, bool) {
	switch {
	case strings.HasPrefix(text, "any "):
		rest := strings.TrimSpace(strings.TrimPrefix(text, "any "))
		i := strings.LastIndex(rest, ".")
		if i < 0 {
			return nil, false
		}
		t := p.lookupType(rest[:i], sc)
		if t == nil {
			return []string{"*"}, true
		}
		su := structOf(t)
		if su == nil {
			return []string{"*"}, true
		}
		for j := 0; j < su.NumFields(); j++ {
			if su.Field(j).Name() == rest[i+1:] {
				return []string{fieldKeyName(t, su.Field(j))}, true
			}
		}
		return []string{"*"}, true
	case strings.HasPrefix(text, "anymap "):
		rest := strings.TrimSpace(strings.TrimPrefix(text, "anymap "))
		t := p.lookupType(rest, sc)
		if t == nil {
			return []string{"*"}, true
		}
		if mt, ok := t.Underlying().(*types.Map); ok {
			return mapKeyNames(mt), true
		}
		return []string{"*"}, true
	case strings.HasPrefix(text, "anyptr "):
		rest := strings.TrimSpace(strings.TrimPrefix(text, "anyptr "))
		t := p.lookupType(rest, sc)
		if t == nil {
			return []string{"*"}, true
		}
		return []string{ptrKeyName(t)}, true
	case strings.HasPrefix(text, "anyghost "):
		rest := strings.TrimSpace(strings.TrimPrefix(text, "anyghost "))
		return []string{"G:" + rest}, true
	case text == "everything":
		return []string{"*"}, true
	}
	return nil, false
}

func (p *Program) lookupType(name string, sc *clauseScope) types.Type {
	// package qualifiers as the source file at the clause's position spells them
	for from, to := range p.pkgRenames(sc, sc.pos) {
		name = regexp.MustCompile(`\b`+regexp.QuoteMeta(from)+`\.`).ReplaceAllString(name, to+".")
	}
	x, err := parser.ParseExpr("(*(" + name + "))(nil)")
	if err != nil {
		return nil
	}
	x = p.localizePkgNames(x, sc, sc.pos)
	info := &types.Info{Types: map[ast.Expr]types.TypeAndValue{}}
	err = types.CheckExpr(p.Fset, sc.pkg, sc.pos, x, info)
	if err != nil {
		// a local of the function may shadow the type's name (LRU.Add has a variable called entry): package scope
		info = &types.Info{Types: map[ast.Expr]types.TypeAndValue{}}
		err = types.CheckExpr(p.Fset, sc.pkg, token.NoPos, x, info)
	}
	if err != nil {
		p.noteOnce("frame designator type " + name + " does not resolve at " + p.Fset.Position(sc.pos).String() + ": the frame falls back to 'everything'")
		return nil
	}
	if pt, ok := info.Types[x].Type.(*types.Pointer); ok {
		return pt.Elem()
	}
	return nil
}

// ensureKey registers the sort of a wildcard key.
func (e *Exec) ensureKey(k string, c *Contract, text string, sc *clauseScope) {
	if _, ok := e.keySort[k]; ok || k == "*" {
		return
	}
	switch {
	case strings.HasPrefix(text, "any "):
		rest := strings.TrimSpace(strings.TrimPrefix(text, "any "))
		i := strings.LastIndex(rest, ".")
		t := e.P.lookupType(rest[:i], sc)
		su := structOf(t)
		for j := 0; j < su.NumFields(); j++ {
			if su.Field(j).Name() == rest[i+1:] {
				e.fieldKey(t, su.Field(j))
			}
		}
	case strings.HasPrefix(text, "anymap "):
		t := e.P.lookupType(strings.TrimSpace(strings.TrimPrefix(text, "anymap ")), sc)
		e.mapKey(t.Underlying().(*types.Map))
	case strings.HasPrefix(text, "anyptr "):
		t := e.P.lookupType(strings.TrimSpace(strings.TrimPrefix(text, "anyptr ")), sc)
		e.ptrKey(t)
	case strings.HasPrefix(text, "anyghost "):
		rest := strings.TrimSpace(strings.TrimPrefix(text, "anyghost "))
		i := strings.Index(rest, ".")
		if i < 0 {
			return
		}
		for pp := range e.P.PC {
			if shortPkg(pp) != rest[:i] {
				continue
			}
			if pkg := e.P.Pkgs[pp]; pkg != nil {
				if fn, ok := pkg.Types.Scope().Lookup("G_" + rest[i+1:]).(*types.Func); ok {
					e.ghostKey(pp, rest[i+1:], fn.Type().(*types.Signature).Results().At(0).Type())
				}
			}
		}
	}
}

func (e *Exec) fieldDesignator(st *State, v *ast.SelectorExpr) []designator {
	// x.f where x is a pointer: (F:T.f, x). x.a.f where x.a is a struct value: location is (F:T.a, x).
	bt := e.typeOf(v.X)
	if isPointer(bt) {
		ref := e.eval(st, v.X)
		elem := bt.Underlying().(*types.Pointer).Elem()
		sel := e.selectionOf(v)
		f := structOf(elem).Field(sel.Index()[0])
		return []designator{{key: e.fieldKey(elem, f), ref: ref}}
	}
	if inner, ok := v.X.(*ast.SelectorExpr); ok {
		return e.fieldDesignator(st, inner)
	}
	e.unsupported(v.Pos(), "modifies designator is not a heap location")
	return nil
}

func (e *Exec) designatorKeys(st *State, text string) []string {
	sc, err := e.P.scopeFor(e.Fn.C)
	if err != nil {
		return nil
	}
	var ks []string
	for _, d := range e.designators(st, e.Fn.C, text, sc) {
		ks = append(ks, d.key)
	}
	return ks
}

func (p *Program) designatorClause(c *Contract, text string) *Clause {
	k := c.Pkg + ":" + c.Key + ":" + text
	if cl, ok := p.desigCache[k]; ok {
		return cl
	}
	x, err := parser.ParseExpr(text)
	if err != nil {
		p.desigCache[k] = nil
		return nil
	}
	cl := &Clause{Kind: "modifies", Label: text, Src: text, Expr: x, Line: fmt.Sprintf("%s:%d", c.File, c.Line)}
	p.desigCache[k] = cl
	return cl
}

// ---------------------------------------------------------------------------------------------
// using a callee's contract at a call site

func (e *Exec) callContract(st *State, call *ast.CallExpr, fn *types.Func, c *Contract, recv Term, args []Term) []Term {
	sc, err := e.P.scopeFor(c)
	if err != nil {
		e.unsupported(call.Pos(), "%v", err)
		return e.freshResults(st, call, fn.Name())
	}
	// ordinal of this call among the calls of the same callee reached from the verified function (also
	// through inlined helpers): preconditions are always proof obligations, never assumptions
	e.frames[0].callSeen[c.Key]++
	ord := e.frames[0].callSeen[c.Key]
	// bind callee parameters
	f := e.pushFrame(e.P.ByKey[c.Pkg+":"+c.Key], sc.info)
	if f.fi == nil {
		f.fi = e.P.ByKey[c.Pkg+":"+stubName(c.Key)]
	}
	defer e.popFrame()
	env := st.Clone()
	if c.NoBody {
		// stub: receiver is the first parameter
		if recv.S == "" {
			recv = Int(0) // placeholder receiver of a plain external function (__static)
		}
		e.bindSignature(env, f, nil, sc.ftype, Term{}, append([]Term{recv}, args...))
	} else {
		e.bindSignature(env, f, sc.decl, sc.ftype, recv, args)
	}
	// preconditions
	for _, r := range c.Requires {
		if err := e.P.CheckClause(c, r, sc.pos, sc); err != nil {
			e.unsupported(call.Pos(), "%v", err)
			continue
		}
		savedOld := e.specOld
		e.specOld = env
		t := e.evalSpec(env, r)
		e.specOld = savedOld
		{
			name := fmt.Sprintf("%s/pre/%s#%d/%s", e.fnName(), c.Key, ord, r.Label)
			o := e.Ctx.AddObligation(e.Fn.FullName(), "pre", name, st.PC, t, e.pos(call.Pos()))
			savedOld2 := e.specOld
			e.specOld = env
			o.SetParts(e.evalSpecParts(env, r))
			e.specOld = savedOld2
		}
		e.assume(st, t)
		e.assume(env, t)
	}
	pre := env.Clone()
	// frame
	if c.ModGiven {
		byKey := map[string][]designator{}
		var order []string
		for _, m := range c.Modifies {
			for _, d := range e.designators(pre, c, m, sc) {
				if _, ok := byKey[d.key]; !ok {
					order = append(order, d.key)
				}
				byKey[d.key] = append(byKey[d.key], d)
			}
		}
		for _, k := range order {
			if k == "*" {
				e.havocKeys(st, map[string]bool{"*": true})
				continue
			}
			cur := e.heapGet(st, k)
			for _, d := range byKey[k] {
				if d.whole {
					cur = e.Ctx.Fresh("hvw", e.keySort[k])
					break
				}
				cur = Store(cur, d.ref, e.Ctx.Fresh("hv", arrayElem(e.keySort[k])))
			}
			e.heapSet(st, k, e.Ctx.Define("hvk", cur))
		}
		if extra := e.P.CallbackExtra(fn); len(extra) > 0 {
			e.havocKeys(st, extra)
			e.assumeRelies(st, pre, fn, e.P.contractKeys(c), call.Pos())
		}
	} else if !c.NoBody {
		ms := e.P.ModSet(fn)
		keys := map[string]bool{}
		for k := range ms {
			keys[k] = true
		}
		e.havocKeys(st, keys)
		if len(e.P.cbsets[fn]) > 0 {
			e.assumeRelies(st, pre, fn, e.P.BaseModSet(fn), call.Pos())
		}
	}
	e.havocMemo(st)
	na := e.Ctx.Fresh("alloc", SInt)
	e.Ctx.Assume(st.PC, Ge(na, st.Alloc))
	st.Alloc = na
	// results
	ss, ts := e.resultSorts(call)
	var res []Term
	for i, s := range ss {
		v := e.Ctx.Fresh("r_"+fn.Name(), s)
		e.assumeType(st, v, ts[i])
		res = append(res, v)
	}
	// postconditions in the post-state
	post := st.Clone()
	for o, v := range env.Vars {
		if _, ok := post.Vars[o]; !ok {
			post.Vars[o] = v
		}
	}
	for i, r := range f.results {
		if i < len(res) {
			post.Vars[r] = res[i]
		}
	}
	savedRes, savedOld := e.specRes, e.specOld
	e.specRes, e.specOld = res, pre
	for _, en := range c.Ensures {
		if en.Hidden {
			continue
		}
		if err := e.P.CheckClause(c, en, sc.pos, sc); err != nil {
			e.unsupported(call.Pos(), "%v", err)
			continue
		}
		// locals of the callee mentioned by the clause are existential witnesses for the caller
		if sc.decl != nil && sc.decl.Body != nil {
			ast.Inspect(en.Expr, func(n ast.Node) bool {
				if id, ok := n.(*ast.Ident); ok {
					if o, ok := e.P.CInfo.Uses[id].(*types.Var); ok && !o.IsField() && o.Pos() > sc.decl.Body.Lbrace && o.Pos() < sc.decl.Body.Rbrace {
						if _, has := post.Vars[o]; !has {
							w := e.Ctx.Fresh("wit_"+o.Name(), e.S.SortOf(o.Type()))
							e.assumeType(post, w, o.Type())
							post.Vars[o] = w
						}
					}
				}
				return true
			})
		}
		t := e.evalSpec(post, en)
		e.assume(st, t)
	}
	e.specRes, e.specOld = savedRes, savedOld
	if c.Opaque || c.NoBody {
		why := "assumed contract (body not verified): " + c.Pkg[strings.LastIndex(c.Pkg, "/")+1:] + "." + c.Key
		if c.Trusted != "" {
			why += " — " + c.Trusted
		}
		if len(c.ProvedFor) > 0 {
			ps := append([]string{}, c.ProvedFor...)
			sortStrings(ps)
			why += " — assumed at interface call sites; proved for " + strings.Join(ps, ", ") + " (its conform-* obligations, property C16)"
		} else if c.NoBody && !strings.Contains(c.Key, ".") == false && c.Trusted == "" {
			why += " — interface or external method: assumed, no implementation is verified against it"
		}
		e.Assumed[why] = true
	}
	e.UsedContracts[c.Pkg+":"+c.Key] = true
	return res
}

// permPred: perm(a, b, n) — the first n elements of a are a rearrangement of the first n elements of b.
// It is produced by the sort externs and by element-wise copies; reflexivity on element-wise equal prefixes
// and transitivity are its only axioms (trusted meaning: multiset equality).
func (e *Exec) permPred(a, b, n Term) Term {
	es := arrayElem(a.Sort)
	name := "perm_" + mangle(es)
	as := a.Sort
	e.Ctx.DeclareFun(name, []string{as, as, SInt}, SBool)
	e.Ctx.Axiom(fmt.Sprintf("(forall ((a %s) (b %s) (c %s) (n Int)) (! (=> (and (%s a b n) (%s b c n)) (%s a c n)) :pattern ((%s a b n) (%s b c n))))", as, as, as, name, name, name, name, name))
	e.Ctx.Axiom(fmt.Sprintf("(forall ((a %s) (n Int)) (! (%s a a n) :pattern ((%s a a n))))", as, name, name))
	e.Assumed["perm(a,b,n) (rearrangement of the first n elements) is characterised by reflexivity, transitivity and what sort/copy produce"] = true
	return app(SBool, name, a, b, n)
}

// sumSeq: __sumseq(s, n, func(x T) int { return e }) = sum of e over the first n elements of s, defined by
// sum(s,0) = 0 and sum(s,n) = sum(s,n-1) + e(s[n-1]).
func (e *Exec) sumSeq(st *State, call *ast.CallExpr) Term {
	lit, ok := call.Args[2].(*ast.FuncLit)
	if !ok {
		e.unsupported(call.Pos(), "__sumseq(s, n, func...)")
		return Int(0)
	}
	s := e.eval(st, call.Args[0])
	n := e.eval(st, call.Args[1])
	if !strings.HasPrefix(s.Sort, "Sl_") {
		e.unsupported(call.Pos(), "__sumseq on %s", s.Sort)
		return Int(0)
	}
	param, body := e.lambdaBody(st, lit)
	if param == nil {
		e.unsupported(call.Pos(), "__sumseq needs func(x T) int { return e }")
		return Int(0)
	}
	ks := e.S.SortOf(param.Type())
	bv := Term{"cntk!q0", ks}
	old, had := e.bound[param]
	e.bound[param] = bv
	v := e.eval(st, body)
	if had {
		e.bound[param] = old
	} else {
		delete(e.bound, param)
	}
	syms := e.Ctx.Symbols(v.S)
	var fv []Term
	var fvs []string
	for _, sy := range syms {
		fv = append(fv, Term{sy, e.Ctx.ConstSort(sy)})
		fvs = append(fvs, e.Ctx.ConstSort(sy))
	}
	for _, t := range e.boundInText(v.S) {
		if t.S != "cntk!q0" {
			fv = append(fv, t)
			fvs = append(fvs, t.Sort)
		}
	}
	fv, fvs = orderByFirstUse(v.S, fv)
	canon := v.S
	for i, a := range fv {
		canon = replaceSymbol(canon, a.S, fmt.Sprintf("$a%d", i))
	}
	key := fmt.Sprintf("sum|%s|%s|%s", ks, strings.Join(fvs, ","), canon)
	name, ok := e.cntDefs[key]
	if !ok {
		name = fmt.Sprintf("sum_%d", len(e.cntDefs)+1)
		e.cntDefs[key] = name
		var params, pnames []string
		for i, srt := range fvs {
			params = append(params, fmt.Sprintf("(a%d %s)", i, srt))
			pnames = append(pnames, fmt.Sprintf("a%d", i))
		}
		val := canon
		for i := range fv {
			val = replaceSymbol(val, fmt.Sprintf("$a%d", i), fmt.Sprintf("a%d", i))
		}
		argl := ""
		if len(pnames) > 0 {
			argl = " " + strings.Join(pnames, " ")
		}
		arrSort := ArraySort(SInt, ks)
		e.Ctx.DeclareFun(name, append([]string{arrSort, SInt}, fvs...), SInt)
		valAt := replaceSymbol(val, "cntk!q0", "(select s (- n 1))")
		e.Ctx.Axiom(fmt.Sprintf("(forall ((s %s) (n Int) %s) (! (=> (<= n 0) (= (%s s n%s) 0)) :pattern ((%s s n%s))))", arrSort, strings.Join(params, " "), name, argl, name, argl))
		e.Ctx.Axiom(fmt.Sprintf("(forall ((s %s) (n Int) %s) (! (=> (> n 0) (= (%s s n%s) (+ (%s s (- n 1)%s) %s))) :pattern ((%s s n%s))))",
			arrSort, strings.Join(params, " "), name, argl, name, argl, valAt, name, argl))
	}
	return app(SInt, name, append([]Term{e.S.SlArr(s), n}, fv...)...)
}

// jsonOf: the JSON encoding of a value, as an uninterpreted function per sort (encoding/json is not
// interpreted; decoding is assumed to be a left inverse of encoding on the same Go type).
func (e *Exec) jsonOf(v Term) Term {
	e.S.needBytes()
	name := "json_" + mangle(v.Sort)
	e.Ctx.DeclareFun(name, []string{v.Sort}, SBytes)
	e.Assumed["encoding/json: Unmarshal(Marshal(v)) restores v for the struct types used (assumed contract on the dependency)"] = true
	return app(SBytes, name, v)
}


// localizePkgNames: contract clauses name packages as the contract file's `//@ import` lines do (and as the ghost
// file does). A source file may import the same package under another name (e.g. `cm ".../common"`): package
// qualifiers are rewritten to the name the file at pos uses, so the clause type-checks at its position.
func (p *Program) localizePkgNames(x ast.Expr, sc *clauseScope, pos token.Pos) ast.Expr {
	ren := p.pkgRenames(sc, pos)
	if len(ren) == 0 {
		return x
	}
	return substSelectorPkgs(x, ren, map[string]int{})
}

// pkgRenames: contract-file package name -> name used by the source file containing pos (only where they differ).
func (p *Program) pkgRenames(sc *clauseScope, pos token.Pos) map[string]string {
	pkg := p.Pkgs[sc.pkg.Path()]
	pc := p.PC[sc.pkg.Path()]
	if pkg == nil || pc == nil || !pos.IsValid() {
		return nil
	}
	var file *ast.File
	for _, f := range pkg.Syntax {
		if f.Pos() <= pos && pos <= f.End() {
			file = f
		}
	}
	if file == nil {
		return nil
	}
	// names used by the contract file: default name = last path element
	ghost := map[string]string{} // name -> path
	for _, im := range pc.Imports {
		fs := strings.Fields(im)
		path := strings.Trim(fs[len(fs)-1], "\"")
		name := path
		if i := strings.LastIndex(path, "/"); i >= 0 {
			name = path[i+1:]
		}
		if len(fs) == 2 {
			name = fs[0]
		}
		ghost[name] = path
	}
	local := map[string]string{} // path -> name in this file
	names := map[string]string{} // name -> path in this file
	for _, im := range file.Imports {
		path := strings.Trim(im.Path.Value, "\"")
		name := path
		if i := strings.LastIndex(path, "/"); i >= 0 {
			name = path[i+1:]
		}
		if ip := pkg.Imports[path]; ip != nil && ip.Name != "" {
			name = ip.Name
		}
		if im.Name != nil {
			name = im.Name.Name
		}
		local[path] = name
		names[name] = path
	}
	ren := map[string]string{}
	for name, path := range ghost {
		if names[name] == path {
			continue
		}
		if ln, ok := local[path]; ok && ln != "_" && ln != "." {
			ren[name] = ln
		}
	}
	return ren
}

// substSelectorPkgs renames the package identifier of qualified identifiers pkg.Name.
func substSelectorPkgs(x ast.Expr, ren map[string]string, bound map[string]int) ast.Expr {
	return substIdentsSel(x, ren)
}

func substIdentsSel(x ast.Expr, ren map[string]string) ast.Expr {
	// reuse substIdents for the traversal: a package name can only occur as the X of a selector, and a local of the
	// same name would shadow it in the clause as well (contracts avoid that); selectors are rebuilt by substIdents
	return substIdents(x, func(id *ast.Ident) ast.Expr {
		if to, ok := ren[id.Name]; ok && id.Obj == nil {
			return ast.NewIdent(to)
		}
		return nil
	}, map[string]int{})
}


// noteOnce records a diagnostic about a contract (printed with the unsupported constructs of every function verified
// afterwards, so that a silently weakened frame cannot go unnoticed).
func (p *Program) noteOnce(msg string) {
	if p.notes == nil {
		p.notes = map[string]bool{}
	}
	p.notes[msg] = true
}

// assumeRelies: after the keys written only by registered callback implementations were havocked at a call of fn,
// assume the implementations' rely clauses between the pre-state and the current state - provided fn's own declared
// frame does not write any of those keys (then every change of them went through the callback).
func (e *Exec) assumeRelies(st, pre *State, fn *types.Func, own map[string]bool, pos token.Pos) {
	for cb := range e.P.cbsets[fn] {
		e.assumeReliesOf(st, pre, cb, own, pos)
	}
}

func (p *Program) cbImplsOf(cb string) []*types.Func {
	p.buildModsets()
	return p.cbImpls[cb]
}

func (e *Exec) assumeReliesOf(st, pre *State, cb string, own map[string]bool, pos token.Pos) {
	{
		for _, impl := range e.P.cbImplsOf(cb) {
			ic := e.P.ContractFor(impl)
			if ic == nil || len(ic.Relies) == 0 {
				continue
			}
			pkg := ""
			if impl.Pkg() != nil {
				pkg = impl.Pkg().Path()
			}
			clean := !own["*"]
			for k := range own {
				if ownPkgKey(k, pkg) {
					clean = false
				}
			}
			if !clean {
				continue
			}
			isc, err := e.P.scopeFor(ic)
			if err != nil {
				continue
			}
			for _, rl := range ic.Relies {
				if err := e.P.CheckClause(ic, rl, isc.pos, isc); err != nil {
					e.unsupported(pos, "%v", err)
					continue
				}
				if len(freeVarsOfClause(e.P.CInfo, rl.Expr)) > 0 {
					continue
				}
				saved := e.specOld
				e.specOld = pre
				t := e.evalSpec(st, rl)
				e.specOld = saved
				e.assume(st, t)
				e.Assumed["rely clause ["+rl.Label+"] of "+fullFuncName(impl)+" (registered for callback "+cb+") used at a call that may invoke the callback; it is proved on that function as post/"+rl.Label+" and lemma/"+rl.Label+"/reflexive|transitive"] = true
			}
		}
	}
}


// customEncodingObligations: `__json(v)` stands for what the standard encoder writes for v's *fields*, and the assumed
// round trip (Unmarshal(Marshal(v)) restores v) is a statement about the standard, reflection-driven encoding. A type
// reachable from v that declares its own encoding method (MarshalJSON, UnmarshalJSON, MarshalText, ... or the codec
// self-encoders) replaces that encoding for every value that contains it, so the assumption no longer describes what
// runs. For every such method without a contract of its own, an obligation that never discharges is emitted once per
// verified function: `…/codec/custom-encoding/<pkg>.<Type>.<Method>` (seed C15-5).
func (e *Exec) customEncodingObligations(t types.Type, pos token.Pos) {
	if t == nil {
		return
	}
	if e.customEncSeen == nil {
		e.customEncSeen = map[string]bool{}
	}
	names := map[string]bool{"MarshalJSON": true, "UnmarshalJSON": true, "MarshalText": true, "UnmarshalText": true,
		"MarshalBinary": true, "UnmarshalBinary": true, "CodecEncodeSelf": true, "CodecDecodeSelf": true, "GobEncode": true, "GobDecode": true}
	seen := map[types.Type]bool{}
	var walk func(t types.Type)
	walk = func(t types.Type) {
		if t == nil || seen[t] {
			return
		}
		seen[t] = true
		if n, ok := t.(*types.Named); ok {
			if n.Obj() != nil && n.Obj().Pkg() != nil && e.P.Pkgs[n.Obj().Pkg().Path()] != nil {
				for _, mt := range []types.Type{n, types.NewPointer(n)} {
					ms := types.NewMethodSet(mt)
					for i := 0; i < ms.Len(); i++ {
						fn, ok := ms.At(i).Obj().(*types.Func)
						if !ok || !names[fn.Name()] {
							continue
						}
						if fi := e.P.Funcs[fn]; fi != nil && fi.C != nil {
							continue // under contract: its own obligations say what it does
						}
						key := shortPkg(n.Obj().Pkg().Path()) + "." + n.Obj().Name() + "." + fn.Name()
						if e.customEncSeen[key] {
							continue
						}
						e.customEncSeen[key] = true
						e.Ctx.AddObligation(e.Fn.FullName(), "codec", fmt.Sprintf("%s/codec/custom-encoding/%s", e.fnName(), key), True, False, e.pos(pos))
					}
				}
			}
			walk(n.Underlying())
			return
		}
		switch u := t.(type) {
		case *types.Pointer:
			walk(u.Elem())
		case *types.Slice:
			walk(u.Elem())
		case *types.Array:
			walk(u.Elem())
		case *types.Map:
			walk(u.Key())
			walk(u.Elem())
		case *types.Struct:
			for i := 0; i < u.NumFields(); i++ {
				walk(u.Field(i).Type())
			}
		}
	}
	walk(t)
}
