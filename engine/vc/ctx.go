// Package vc is the verification-condition generator of govc: a forward symbolic executor over the typed
// go/ast of functions under contract, producing SMT-LIB 2 obligations.
package vc

import (
	"fmt"
	"sort"
	"strings"
)

// Term is an SMT-LIB term with its sort.
type Term struct {
	S    string // SMT text
	Sort string // SMT sort text
}

func (t Term) String() string { return t.S }

var (
	True  = Term{"true", "Bool"}
	False = Term{"false", "Bool"}
)

func Int(n int64) Term {
	if n < 0 {
		return Term{fmt.Sprintf("(- %d)", -n), "Int"}
	}
	return Term{fmt.Sprintf("%d", n), "Int"}
}

func IntS(s string) Term { // decimal string, possibly negative
	if strings.HasPrefix(s, "-") {
		return Term{"(- " + s[1:] + ")", "Int"}
	}
	return Term{s, "Int"}
}

func app(sortOut string, f string, args ...Term) Term {
	var b strings.Builder
	b.WriteString("(")
	b.WriteString(f)
	for _, a := range args {
		b.WriteString(" ")
		b.WriteString(a.S)
	}
	b.WriteString(")")
	return Term{b.String(), sortOut}
}

func Not(a Term) Term {
	switch a.S {
	case "true":
		return False
	case "false":
		return True
	}
	if strings.HasPrefix(a.S, "(not ") {
		return Term{a.S[5 : len(a.S)-1], "Bool"}
	}
	return app("Bool", "not", a)
}

func And(ts ...Term) Term {
	var keep []Term
	for _, t := range ts {
		if t.S == "true" {
			continue
		}
		if t.S == "false" {
			return False
		}
		keep = append(keep, t)
	}
	switch len(keep) {
	case 0:
		return True
	case 1:
		return keep[0]
	}
	return app("Bool", "and", keep...)
}

func Or(ts ...Term) Term {
	var keep []Term
	for _, t := range ts {
		if t.S == "false" {
			continue
		}
		if t.S == "true" {
			return True
		}
		keep = append(keep, t)
	}
	switch len(keep) {
	case 0:
		return False
	case 1:
		return keep[0]
	}
	return app("Bool", "or", keep...)
}

func Implies(a, b Term) Term {
	if a.S == "true" {
		return b
	}
	if a.S == "false" || b.S == "true" {
		return True
	}
	return app("Bool", "=>", a, b)
}

func Eq(a, b Term) Term {
	if a.S == b.S {
		return True
	}
	return app("Bool", "=", a, b)
}

func Ite(c, a, b Term) Term {
	if c.S == "true" {
		return a
	}
	if c.S == "false" {
		return b
	}
	if a.S == b.S {
		return a
	}
	return app(a.Sort, "ite", c, a, b)
}

func Select(arr, idx Term) Term {
	// sort of result: arr.Sort is "(Array I E)"
	return app(arrayElem(arr.Sort), "select", arr, idx)
}

func Store(arr, idx, v Term) Term { return app(arr.Sort, "store", arr, idx, v) }

func ArraySort(i, e string) string { return "(Array " + i + " " + e + ")" }

// arrayElem returns E from "(Array I E)".
func arrayElem(s string) string {
	parts := splitSexp(s)
	if len(parts) == 3 && parts[0] == "Array" {
		return parts[2]
	}
	panic("not an array sort: " + s)
}

func arrayIndex(s string) string {
	parts := splitSexp(s)
	if len(parts) == 3 && parts[0] == "Array" {
		return parts[1]
	}
	panic("not an array sort: " + s)
}

// splitSexp splits the top-level elements of "(a b (c d))" into ["a","b","(c d)"].
func splitSexp(s string) []string {
	s = strings.TrimSpace(s)
	if !strings.HasPrefix(s, "(") {
		return []string{s}
	}
	s = s[1 : len(s)-1]
	var out []string
	depth := 0
	start := -1
	for i, c := range s {
		switch {
		case c == '(':
			if depth == 0 && start < 0 {
				start = i
			}
			depth++
		case c == ')':
			depth--
			if depth == 0 {
				out = append(out, s[start:i+1])
				start = -1
			}
		case c == ' ' || c == '\n' || c == '\t':
			if depth == 0 && start >= 0 {
				out = append(out, s[start:i])
				start = -1
			}
		default:
			if start < 0 {
				start = i
			}
		}
	}
	if start >= 0 {
		out = append(out, s[start:])
	}
	return out
}

func Add(a, b Term) Term { return app("Int", "+", a, b) }
func Sub(a, b Term) Term { return app("Int", "-", a, b) }
func Mul(a, b Term) Term { return app("Int", "*", a, b) }
func Lt(a, b Term) Term  { return app("Bool", "<", a, b) }
func Le(a, b Term) Term  { return app("Bool", "<=", a, b) }
func Gt(a, b Term) Term  { return app("Bool", ">", a, b) }
func Ge(a, b Term) Term  { return app("Bool", ">=", a, b) }

// Ctx accumulates the declarations and facts of one function's verification run.
type Ctx struct {
	sortDecls  []string          // in order
	sortSeen   map[string]bool   // datatype names declared
	decls      []string          // declare-fun / declare-const lines in order
	declSeen   map[string]string // name -> sort (constants) or signature
	consts     map[string]string // constant name -> sort
	axioms     []string          // global axioms (assert ...)
	axiomSeen  map[string]bool
	facts      []string // ordered facts (already guarded)
	factSeen   map[string]bool
	fresh      int
	Oblig      []*Obligation
	NeedsQuant bool
}

func NewCtx() *Ctx {
	return &Ctx{sortSeen: map[string]bool{}, declSeen: map[string]string{}, consts: map[string]string{}, axiomSeen: map[string]bool{}, factSeen: map[string]bool{}}
}

// Obligation is one proof goal: Hyps (snapshot sizes into ctx) ⊢ Goal.
type Obligation struct {
	Name     string
	Kind     string // pre, post, inv-init, inv-pres, assert, safe, frame, lemma, vacuity, aux, conform
	Func     string
	Goal     Term
	nSorts   int
	nDecls   int
	nAxioms  int
	nFacts   int
	ctx      *Ctx
	Pos      string // source position (informational only; not part of the name)
	MustFail bool   // vacuity canary: expected sat
	Extra    []string
	Parts    []Term // the goal as a conjunction of smaller goals (tried when the whole goal does not discharge)
	pc       Term
	// Raw: a complete SMT-LIB script (used for the IEEE-754 side conditions, which live in QF_BVFP and share
	// nothing with the integer/heap context of the function); unsat = discharged.
	Raw string
	// ThoroughOnly: needs more solver time than the quick tier allows; the quick tier lists it as unchecked.
	ThoroughOnly bool
	// Replay: how to rebuild the inputs of the verified function from a model (nil: no generic replay)
	Replay *ReplayPlan
	// GenericTest: the test generated by the last generic replay of this obligation
	GenericTest *GenericTest
}

func (c *Ctx) Fresh(prefix, srt string) Term {
	c.fresh++
	name := fmt.Sprintf("%s!%d", sanitize(prefix), c.fresh)
	c.DeclareConst(name, srt)
	return Term{name, srt}
}

func sanitize(s string) string {
	var b strings.Builder
	for _, r := range s {
		if (r >= 'a' && r <= 'z') || (r >= 'A' && r <= 'Z') || (r >= '0' && r <= '9') || r == '_' || r == '.' || r == '$' {
			b.WriteRune(r)
		} else {
			b.WriteRune('_')
		}
	}
	if b.Len() == 0 {
		return "t"
	}
	return b.String()
}

func (c *Ctx) DeclareConst(name, srt string) {
	if _, ok := c.declSeen[name]; ok {
		return
	}
	c.declSeen[name] = srt
	c.consts[name] = srt
	c.decls = append(c.decls, fmt.Sprintf("(declare-fun %s () %s)", name, srt))
}

func (c *Ctx) DeclareFun(name string, args []string, out string) {
	sig := "(" + strings.Join(args, " ") + ") " + out
	if _, ok := c.declSeen[name]; ok {
		return
	}
	c.declSeen[name] = sig
	c.decls = append(c.decls, fmt.Sprintf("(declare-fun %s %s)", name, sig))
}

func (c *Ctx) DeclareSortRaw(name, decl string) {
	if c.sortSeen[name] {
		return
	}
	c.sortSeen[name] = true
	c.sortDecls = append(c.sortDecls, decl)
}

func (c *Ctx) Axiom(s string) {
	if c.axiomSeen[s] {
		return
	}
	c.axiomSeen[s] = true
	if strings.Contains(s, "(forall ") || strings.Contains(s, "(exists ") {
		c.NeedsQuant = true
	}
	c.axioms = append(c.axioms, "(assert "+s+")")
}

// Assume records a fact that holds whenever pc holds.
func (c *Ctx) Assume(pc, fact Term) {
	t := Implies(pc, fact)
	if t.S == "true" {
		return
	}
	if strings.Contains(t.S, "!q") && !boundClosed(t.S) {
		return // mentions a quantifier-bound variable outside its binder: not a closed fact
	}
	if c.factSeen[t.S] {
		return
	}
	c.factSeen[t.S] = true
	if strings.Contains(t.S, "(forall ") || strings.Contains(t.S, "(exists ") {
		c.NeedsQuant = true
	}
	c.facts = append(c.facts, "(assert "+t.S+")")
}

// Define introduces a fresh constant equal to t (keeps terms small).
func (c *Ctx) Define(prefix string, t Term) Term {
	if len(t.S) < 48 {
		return t
	}
	if strings.Contains(t.S, "!q") && !boundClosed(t.S) {
		return t
	}
	v := c.Fresh(prefix, t.Sort)
	c.facts = append(c.facts, "(assert (= "+v.S+" "+t.S+"))")
	return v
}

// Name always introduces a constant for t (unless t is already an identifier): used where a term must be a
// legal quantifier pattern (no ite).
func (c *Ctx) Name(prefix string, t Term) Term {
	if !strings.ContainsAny(t.S, "( ") {
		return t
	}
	if strings.Contains(t.S, "!q") && !boundClosed(t.S) {
		return t
	}
	v := c.Fresh(prefix, t.Sort)
	c.facts = append(c.facts, "(assert (= "+v.S+" "+t.S+"))")
	return v
}

func (c *Ctx) AddObligation(fn, kind, name string, pc, goal Term, pos string) *Obligation {
	o := &Obligation{pc: pc, Name: name, Kind: kind, Func: fn, Goal: Implies(pc, goal), nSorts: len(c.sortDecls), nDecls: len(c.decls), nAxioms: len(c.axioms), nFacts: len(c.facts), ctx: c, Pos: pos}
	c.Oblig = append(c.Oblig, o)
	return o
}

// SetParts records a decomposition of the goal.
func (o *Obligation) SetParts(parts []Term) {
	if len(parts) > 1 {
		for _, p := range parts {
			o.Parts = append(o.Parts, Implies(o.pc, p))
		}
		// evaluating the parts may have introduced named constants with their defining equations: they belong to
		// this obligation's context as well (facts are never goal-dependent)
		c := o.ctx
		o.nSorts, o.nDecls, o.nAxioms, o.nFacts = len(c.sortDecls), len(c.decls), len(c.axioms), len(c.facts)
	}
}

// SMT renders the obligation as an SMT-LIB 2 script (goal negated).
func (o *Obligation) SMT(produceModels bool) string { return o.smtFor(o.Goal, produceModels) }

func (o *Obligation) smtFor(goal Term, produceModels bool) string {
	if o.Raw != "" {
		return o.Raw
	}
	c := o.ctx
	var b strings.Builder
	if produceModels {
		b.WriteString("(set-option :produce-models true)\n")
	}
	b.WriteString("(set-logic ALL)\n")
	// sorts and decls declared later may be referenced by facts recorded earlier only if they were
	// declared before those facts, so the snapshot prefix is self-contained. Axioms are global: include
	// all axioms whose symbols are declared (we simply include all sorts/decls, they are cheap).
	for _, s := range c.sortDecls {
		b.WriteString(s)
		b.WriteString("\n")
	}
	for _, d := range c.decls {
		b.WriteString(d)
		b.WriteString("\n")
	}
	for _, a := range c.axioms {
		b.WriteString(a)
		b.WriteString("\n")
	}
	for _, f := range c.facts[:o.nFacts] {
		b.WriteString(f)
		b.WriteString("\n")
	}
	for _, f := range o.Extra {
		b.WriteString(f)
		b.WriteString("\n")
	}
	b.WriteString("(assert (not " + goal.S + "))\n")
	b.WriteString("(check-sat)\n")
	if produceModels {
		b.WriteString("(get-model)\n")
	}
	return b.String()
}

// Symbols returns the declared constants occurring in term text s, sorted.
func (c *Ctx) Symbols(s string) []string {
	seen := map[string]bool{}
	tok := strings.FieldsFunc(s, func(r rune) bool { return r == '(' || r == ')' || r == ' ' || r == '\n' || r == '\t' })
	for _, t := range tok {
		if _, ok := c.consts[t]; ok {
			seen[t] = true
		}
	}
	var out []string
	for k := range seen {
		out = append(out, k)
	}
	sort.Strings(out)
	return out
}

func (c *Ctx) ConstSort(name string) string { return c.consts[name] }

// boundClosed reports whether every quantifier-bound variable name (containing "!q") occurring in s is
// bound by a quantifier inside s.
func boundClosed(s string) bool {
	tok := strings.FieldsFunc(s, func(r rune) bool { return r == '(' || r == ')' || r == ' ' || r == '\n' || r == '\t' })
	for _, t := range tok {
		if strings.Contains(t, "!q") {
			if !strings.Contains(s, "(("+t+" ") && !strings.Contains(s, " ("+t+" ") {
				return false
			}
		}
	}
	return true
}
