package vc

import (
	"fmt"
	"go/ast"
	"go/token"
	"go/types"
	"strings"
)

// evalCall evaluates a call; calls made directly by the verified function update the ghost call history
// and are checked against the contract's call-site assertions.
func (e *Exec) evalCall(st *State, call *ast.CallExpr) []Term {
	name := ""
	switch f := call.Fun.(type) {
	case *ast.Ident:
		name = f.Name
	case *ast.SelectorExpr:
		name = f.Sel.Name
	}
	top := len(e.frames) == 1 && e.spec == 0 && e.calledObj != nil && name != ""
	if top {
		if e.assertFor == nil {
			e.assertFor = map[*ast.CallExpr]bool{}
		}
		e.assertFor[call] = true
	}
	res := e.evalCallInner(st, call)
	if len(e.frames) == 1 && e.spec == 0 && e.lockObj != nil && !st.Dead() {
		if text, d := lockCall(e.frames[0].info, call); d != 0 {
			if o := e.lockObj[text]; o != nil {
				if v, ok := st.Vars[o]; ok {
					st.Vars[o] = app(SInt, "+", v, Int(int64(d)))
				}
			}
		}
	}
	if top && !st.Dead() {
		if o := e.calledObj[name]; o != nil {
			st.Vars[o] = True
			for i, ro := range e.lastRetObj[name] {
				if i < len(res) && res[i].Sort == e.S.SortOf(ro.Type()) {
					st.Vars[ro] = res[i]
				}
			}
		}
		// `call f after assert[l] e`
		if e.Fn.C != nil {
			for _, ca := range e.Fn.C.Calls {
				if ca.Callee != name || !ca.After {
					continue
				}
				e.callAsserted[ca] = true
				t := e.evalSpec(st, ca.Clause)
				if ca.Assume {
					e.Assumed["explicit assumption ["+ca.Clause.Label+"] after call "+name+": "+ca.Clause.Src] = true
					e.assume(st, t)
					continue
				}
				e.Ctx.AddObligation(e.Fn.FullName(), "assert", fmt.Sprintf("%s/assert/%s", e.fnName(), ca.Clause.Label), st.PC, t, e.pos(call.Pos()))
			}
		}
	}
	return res
}

// callSiteAsserts emits the obligations `call <name> assert[...]` for a call whose receiver and arguments
// have just been evaluated.
func (e *Exec) callSiteAsserts(st *State, call *ast.CallExpr, name string, recv Term, args []Term) {
	if len(e.frames) != 1 || e.spec > 0 || e.Fn.C == nil || !e.assertFor[call] {
		return
	}
	delete(e.assertFor, call)
	e.fr().callSeen["@"+name]++
	ord := e.fr().callSeen["@"+name]
	for _, ca := range e.Fn.C.Calls {
		if ca.Callee != name || (ca.Ordinal != 0 && ca.Ordinal != ord) || ca.After {
			continue
		}
		e.callAsserted[ca] = true
		savedA, savedR := e.callArgs, e.callRecv
		e.callArgs, e.callRecv = args, recv
		savedX := e.callArgExprs
		e.callArgExprs = call.Args
		defer func() { e.callArgExprs = savedX }()
		if ca.Capture {
			// ghost variable: remember the value of the expression at this call
			e.spec++
			v := e.eval(st.Clone(), ca.Clause.Expr)
			e.spec--
			e.callArgs, e.callRecv = savedA, savedR
			if o := e.capObj[ca.Clause.Label]; o != nil {
				st.Vars[o] = v
			} else {
				e.unsupported(call.Pos(), "capture [%s]: no ghost variable", ca.Clause.Label)
			}
			continue
		}
		t := e.evalSpec(st, ca.Clause)
		e.callArgs, e.callRecv = savedA, savedR
		if ca.Assume {
			e.Assumed["explicit assumption ["+ca.Clause.Label+"] at call "+name+": "+ca.Clause.Src] = true
			e.assume(st, t)
			continue
		}
		e.Ctx.AddObligation(e.Fn.FullName(), "assert", fmt.Sprintf("%s/assert/%s", e.fnName(), ca.Clause.Label), st.PC, t, e.pos(call.Pos()))
	}
}

const (
	maxInlineDepth = 8
	maxInlineStmts = 60
)

func (e *Exec) evalCallInner(st *State, call *ast.CallExpr) []Term {
	fun := call.Fun
	for {
		if p, ok := fun.(*ast.ParenExpr); ok {
			fun = p.X
		} else {
			break
		}
	}
	// conversion
	if tv, ok := e.tvOf(fun); ok && tv.IsType() {
		return []Term{e.evalConversion(st, call, tv.Type)}
	}
	// generic instantiation f[T](...)
	if ix, ok := fun.(*ast.IndexExpr); ok {
		if tv, ok := e.tvOf(ix.X); ok && isGenericFunc(tv.Type) {
			fun = ix.X
			if id, ok := fun.(*ast.Ident); ok && id.Name == "__ret" {
				return []Term{e.specResult(call)}
			}
		}
	}
	switch f := fun.(type) {
	case *ast.Ident:
		obj := e.objOf(f)
		switch o := obj.(type) {
		case *types.Builtin:
			return e.evalBuiltin(st, call, f.Name)
		case *types.Func:
			if strings.HasPrefix(f.Name, "__") {
				return []Term{e.evalGhostBuiltin(st, call, f.Name)}
			}
			return e.callFunc(st, call, o, nil, nil)
		case *types.Var:
			if lit := e.closures[o]; lit != nil {
				// call-site assertions on a local closure (`call setVote assert[...]`): arguments are evaluated
				// once for the assertion (they are side-effect free here) and again by the expansion
				if len(e.frames) == 1 && e.spec == 0 && e.Fn.C != nil && e.assertFor[call] {
					has := false
					for _, ca := range e.Fn.C.Calls {
						if ca.Callee == f.Name && !ca.After {
							has = true
						}
					}
					if has {
						if sig, ok := e.typeOf(lit).(*types.Signature); ok {
							args := e.evalArgs(st, call, sig)
							e.callSiteAsserts(st, call, f.Name, Term{}, args)
							return e.inlineClosureArgs(st, call, lit, args)
						}
					}
				}
				return e.inlineClosure(st, call, lit)
			}
			return e.callUnknown(st, call, "function value "+f.Name)
		}
	case *ast.FuncLit:
		return e.inlineClosure(st, call, f)
	case *ast.SelectorExpr:
		sel := e.selectionOf(f)
		if sel == nil {
			// pkg.Func
			if o, ok := e.objOf(f.Sel).(*types.Func); ok {
				return e.callFunc(st, call, o, nil, nil)
			}
			if _, ok := e.objOf(f.Sel).(*types.Var); ok {
				return e.callUnknown(st, call, "function variable "+f.Sel.Name)
			}
		} else {
			switch sel.Kind() {
			case types.MethodVal:
				return e.callFunc(st, call, sel.Obj().(*types.Func), f.X, sel)
			case types.FieldVal:
				if e.Fn.C != nil && e.Fn.C.PureFields[f.Sel.Name] && len(e.frames) == 1 {
					e.eval(st, f.X)
					var args []Term
					for _, a := range call.Args {
						args = append(args, e.eval(st, a))
					}
					e.callSiteAsserts(st, call, f.Sel.Name, Term{}, args)
					mods := e.Fn.C.CallbackMods[f.Sel.Name]
					if len(mods) == 0 {
						e.Assumed["callback "+f.Sel.Name+" (application code) assumed not to modify the node's state or the objects it is handed; its results are unconstrained"] = true
					} else {
						e.Assumed["callback "+f.Sel.Name+" assumed to modify at most: "+strings.Join(mods, ", ")+"; its results are unconstrained"] = true
						if sc, err := e.P.scopeFor(e.Fn.C); err == nil {
							for _, m := range mods {
								for _, d := range e.designators(st, e.Fn.C, m, sc) {
									if d.key == "*" {
										e.havocKeys(st, map[string]bool{"*": true})
										continue
									}
									cur := e.heapGet(st, d.key)
									if d.whole {
										cur = e.Ctx.Fresh("cbw", e.keySort[d.key])
									} else {
										cur = Store(cur, d.ref, e.Ctx.Fresh("cb", arrayElem(e.keySort[d.key])))
									}
									e.heapSet(st, d.key, e.Ctx.Define("cbk", cur))
								}
							}
						}
					}
					// registered implementations: what they write in their own package, under their rely clauses
					if bt := e.typeOf(f.X); bt != nil {
						if isPointer(bt) {
							bt = bt.Underlying().(*types.Pointer).Elem()
						}
						if n, ok := types.Unalias(bt).(*types.Named); ok {
							pre := st.Clone()
							for _, impl := range e.P.cbImplsOf(n.Obj().Name() + "." + f.Sel.Name) {
								pkg := ""
								if impl.Pkg() != nil {
									pkg = impl.Pkg().Path()
								}
								keys := map[string]bool{}
								for k := range e.P.ModSet(impl) {
									if k == "*" || ownPkgKey(k, pkg) {
										keys[k] = true
									}
								}
								if len(keys) > 0 {
									e.havocKeys(st, keys)
								}
							}
							e.assumeReliesOf(st, pre, n.Obj().Name()+"."+f.Sel.Name, nil, call.Pos())
						}
					}
					e.havocMemo(st)
					return e.freshResults(st, call, f.Sel.Name)
				}
				return e.callUnknown(st, call, "function-typed field "+f.Sel.Name)
			}
		}
	}
	return e.callUnknown(st, call, "call form")
}

func (e *Exec) specResult(call *ast.CallExpr) Term {
	tv, _ := e.tvOf(call.Args[0])
	n := 0
	if tv.Value != nil {
		fmt.Sscanf(tv.Value.ExactString(), "%d", &n)
	}
	if n < len(e.specRes) {
		return e.specRes[n]
	}
	e.unsupported(call.Pos(), "ret%d outside a postcondition", n)
	return Int(0)
}

func (e *Exec) resultSorts(call *ast.CallExpr) ([]string, []types.Type) {
	t := e.typeOf(call)
	if t == nil {
		return nil, nil
	}
	if tup, ok := t.(*types.Tuple); ok {
		var ss []string
		var ts []types.Type
		for i := 0; i < tup.Len(); i++ {
			ss = append(ss, e.S.SortOf(tup.At(i).Type()))
			ts = append(ts, tup.At(i).Type())
		}
		return ss, ts
	}
	return []string{e.S.SortOf(t)}, []types.Type{t}
}

func (e *Exec) freshResults(st *State, call *ast.CallExpr, hint string) []Term {
	ss, ts := e.resultSorts(call)
	var out []Term
	for i, s := range ss {
		v := e.Ctx.Fresh("r_"+hint, s)
		if isHeapRefType(ts[i]) {
			// may be a freshly allocated object
			na := e.Ctx.Fresh("alloc", SInt)
			e.Ctx.Assume(st.PC, And(Ge(na, st.Alloc), Ge(v, Int(0)), Le(v, na)))
			st.Alloc = na
			e.Ctx.Assume(st.PC, e.typeFact(v, ts[i]))
		} else {
			e.assumeType(st, v, ts[i])
		}
		out = append(out, v)
	}
	return out
}

// callUnknown: a call whose target cannot be resolved statically. Everything on the heap may change.
func (e *Exec) callUnknown(st *State, call *ast.CallExpr, why string) []Term {
	for _, a := range call.Args {
		e.eval(st, a)
	}
	if e.spec > 0 {
		e.unsupported(call.Pos(), "call in specification: %s", why)
		return e.freshResults(st, call, "u")
	}
	e.Assumed["unresolved call ("+why+"): whole heap havocked, result unconstrained"] = true
	e.havocKeys(st, map[string]bool{"*": true})
	return e.freshResults(st, call, "u")
}

func (e *Exec) havocKeys(st *State, keys map[string]bool) {
	var ks []string
	if keys["*"] {
		for k := range e.keySort {
			ks = append(ks, k)
		}
		st.HavocAll = true
		st.HavocID = e.nextHavocID()
	} else {
		for k := range keys {
			if e.ensureKeySort(k) {
				ks = append(ks, k)
			} else {
				if st.Unknown == nil {
					st.Unknown = map[string]int{}
				}
				st.Unknown[k] = e.nextHavocID()
			}
		}
	}
	sortStrings(ks)
	for _, k := range ks {
		st.Heap[k] = e.Ctx.Fresh("hv", e.keySort[k])
		e.touched[k] = true
	}
	e.havocMemo(st)
	na := e.Ctx.Fresh("alloc", SInt)
	e.Ctx.Assume(st.PC, Ge(na, st.Alloc))
	st.Alloc = na
}

func (e *Exec) evalConversion(st *State, call *ast.CallExpr, to types.Type) Term {
	arg := call.Args[0]
	from := e.typeOf(arg)
	if isNilExpr(e, arg) {
		return e.S.Zero(e.S.SortOf(to))
	}
	v := e.eval(st, arg)
	ts := e.S.SortOf(to)
	if isInterface(to) && !isInterface(from) {
		return e.box(st, v, from)
	}
	switch {
	case v.Sort == ts && ts == SInt:
		// integer to integer
		if _, _, ok := intRange(to); ok {
			if lo, hi, ok2 := intRange(from); ok2 {
				tlo, thi, _ := intRange(to)
				if !(geStr(lo, tlo) && leStr(hi, thi)) {
					// narrowing
					switch e.mode {
					case "checked":
						e.arith(st, call, v, to)
						return v
					case "wrap":
						return e.Ctx.Define("cv", e.wrap(v, to))
					default:
						// "ideal" treats arithmetic as mathematical, but a narrowing conversion is an explicit
						// operation whose result differs from its operand outside the target range: exact semantics
						return e.Ctx.Define("cv", e.wrap(v, to))
					}
				}
			}
		}
		return v
	case v.Sort == ts:
		return v
	case v.Sort == SInt && ts == SReal:
		e.noteFloatModel()
		return Term{"(to_real " + v.S + ")", SReal}
	case v.Sort == SReal && ts == SInt:
		// truncation toward zero
		return Term{fmt.Sprintf("(ite (>= %s 0.0) (to_int %s) (- (to_int (- %s))))", v.S, v.S, v.S), SInt}
	case v.Sort == SBytes && ts == SStr:
		r := app(SStr, "str_of_bytes", v)
		e.Ctx.Assume(st.PC, Eq(app(SInt, "str_len", r), app(SInt, "bytes_len", v)))
		return r
	case v.Sort == SStr && ts == SBytes:
		r := app(SBytes, "bytes_of_str", v)
		e.Ctx.Assume(st.PC, Eq(app(SInt, "bytes_len", r), app(SInt, "str_len", v)))
		e.Ctx.Assume(st.PC, Eq(app(SStr, "str_of_bytes", r), v)) // string([]byte(s)) == s
		return r
	case v.Sort == SInt && ts == SStr:
		e.Ctx.DeclareFun("str_of_rune", []string{SInt}, SStr)
		return app(SStr, "str_of_rune", v)
	}
	e.unsupported(call.Pos(), "conversion %s -> %s", v.Sort, ts)
	return e.Ctx.Fresh("conv", ts)
}

func geStr(a, b string) bool { return cmpDec(a, b) >= 0 }
func leStr(a, b string) bool { return cmpDec(a, b) <= 0 }

func cmpDec(a, b string) int {
	na, nb := strings.HasPrefix(a, "-"), strings.HasPrefix(b, "-")
	switch {
	case na && !nb:
		return -1
	case !na && nb:
		return 1
	case na && nb:
		return -cmpDec(a[1:], b[1:])
	}
	if len(a) != len(b) {
		if len(a) < len(b) {
			return -1
		}
		return 1
	}
	return strings.Compare(a, b)
}

func (e *Exec) evalBuiltin(st *State, call *ast.CallExpr, name string) []Term {
	switch name {
	case "len", "cap":
		v := e.eval(st, call.Args[0])
		t := e.typeOf(call.Args[0])
		switch {
		case v.Sort == SStr:
			return []Term{app(SInt, "str_len", v)}
		case v.Sort == SBytes:
			return []Term{app(SInt, "bytes_len", v)}
		case strings.HasPrefix(v.Sort, "Sl_"):
			if name == "cap" {
				c := e.Ctx.Fresh("cap", SInt)
				e.Ctx.Assume(st.PC, Ge(c, e.S.SlLen(v)))
				return []Term{c}
			}
			return []Term{e.S.SlLen(v)}
		}
		if mt, ok := t.Underlying().(*types.Map); ok {
			mk := e.mapKey(mt)
			ln := Select(e.heapGet(st, mk.ln), v)
			r := Ite(Eq(v, Int(0)), Int(0), ln)
			e.Ctx.Assume(st.PC, Ge(r, Int(0)))
			return []Term{r}
		}
		if at, ok := t.Underlying().(*types.Array); ok {
			return []Term{Int(at.Len())}
		}
		if _, ok := t.Underlying().(*types.Chan); ok {
			c := e.Ctx.Fresh("chanlen", SInt)
			e.Ctx.Assume(st.PC, Ge(c, Int(0)))
			return []Term{c}
		}
		e.unsupported(call.Pos(), "len of %s", v.Sort)
		return []Term{Int(0)}
	case "append":
		return []Term{e.evalAppend(st, call)}
	case "make":
		t := e.typeOf(call.Args[0])
		switch u := t.Underlying().(type) {
		case *types.Map:
			for _, a := range call.Args[1:] {
				e.eval(st, a)
			}
			return []Term{e.newMap(st, u)}
		case *types.Slice:
			n := e.eval(st, call.Args[1])
			if len(call.Args) > 2 {
				c := e.eval(st, call.Args[2])
				e.safe(st, "make", call, And(Ge(n, Int(0)), Le(n, c)))
			} else {
				e.safe(st, "make", call, Ge(n, Int(0)))
			}
			if isByteSlice(t) {
				b := e.Ctx.Fresh("bytes", SBytes)
				e.Ctx.Assume(st.PC, Eq(app(SInt, "bytes_len", b), n))
				e.Ctx.Assume(st.PC, Not(Eq(b, Term{"bytes_nil", SBytes})))
				return []Term{b}
			}
			srt := e.S.SortOf(t)
			es := e.S.sliceElem(srt)
			return []Term{e.S.MkSlice(srt, e.S.ConstArray(SInt, es, e.S.Zero(es)), n, False)}
		case *types.Chan:
			return []Term{e.allocRef(st, "chan")}
		}
	case "new":
		t := e.typeOf(call.Args[0])
		return []Term{e.newCell(st, t, e.S.Zero(e.S.SortOf(t)))}
	case "delete":
		mt := e.typeOf(call.Args[0]).Underlying().(*types.Map)
		m := e.eval(st, call.Args[0])
		k := e.evalTo(st, call.Args[1], mt.Key())
		e.mapDelete(st, m, k, mt)
		return nil
	case "copy":
		// copy(dst, src): dst is a location with slice value
		dl := e.lvalOf(st, call.Args[0])
		d := dl.get(st)
		s := e.eval(st, call.Args[1])
		if strings.HasPrefix(d.Sort, "Sl_") && d.Sort == s.Sort {
			n := e.Ctx.Define("cpn", Ite(Lt(e.S.SlLen(d), e.S.SlLen(s)), e.S.SlLen(d), e.S.SlLen(s)))
			na := e.Ctx.Fresh("cparr", ArraySort(SInt, e.S.sliceElem(d.Sort)))
			e.Ctx.Assume(st.PC, Term{fmt.Sprintf("(forall ((i Int)) (! (= (select %s i) (ite (and (<= 0 i) (< i %s)) (select %s i) (select %s i))) :pattern ((select %s i))))", na.S, n.S, e.S.SlArr(s).S, e.S.SlArr(d).S, na.S), SBool})
			e.Ctx.Assume(st.PC, Implies(Eq(e.S.SlLen(d), e.S.SlLen(s)), e.permPred(na, e.S.SlArr(s), n)))
			e.noteSliceWrite(st, call, call.Args[0])
			dl.set(st, e.S.MkSlice(d.Sort, na, e.S.SlLen(d), e.S.SlNil(d)))
			return []Term{n}
		}
		if d.Sort == SBytes && s.Sort == SBytes {
			// opaque byte strings: copying a source of the same non-zero length overwrites the whole destination
			// (the destination then has the source's content); an empty source changes nothing
			e.S.needBytes()
			ld, ls := app(SInt, "bytes_len", d), app(SInt, "bytes_len", s)
			cp := e.Ctx.Fresh("bcopy", SBytes)
			e.Ctx.Assume(st.PC, And(Eq(app(SInt, "bytes_len", cp), ld),
				Implies(And(Eq(ld, ls), Gt(ls, Int(0))), Eq(cp, s)),
				Implies(Eq(ls, Int(0)), Eq(cp, d))))
			e.noteSliceWrite(st, call, call.Args[0])
			dl.set(st, cp)
			return []Term{Ite(Lt(ld, ls), ld, ls)}
		}
		e.unsupported(call.Pos(), "copy on %s", d.Sort)
		return []Term{Int(0)}
	case "panic":
		e.eval(st, call.Args[0])
		if e.safety && e.spec == 0 {
			e.safe(st, "panic", call, False)
		} else {
			e.assume(st, False)
		}
		return nil
	case "print", "println":
		return nil
	case "min", "max":
		a := e.eval(st, call.Args[0])
		for _, x := range call.Args[1:] {
			b := e.eval(st, x)
			if name == "min" {
				a = Ite(Lt(a, b), a, b)
			} else {
				a = Ite(Gt(a, b), a, b)
			}
		}
		return []Term{a}
	}
	e.unsupported(call.Pos(), "builtin %s", name)
	return e.freshResults(st, call, name)
}

func (e *Exec) evalAppend(st *State, call *ast.CallExpr) Term {
	s := e.eval(st, call.Args[0])
	t := e.typeOf(call.Args[0])
	if s.Sort == SBytes {
		e.Ctx.DeclareFun("bytes_cat", []string{SBytes, SBytes}, SBytes)
		if call.Ellipsis.IsValid() {
			o := e.eval(st, call.Args[1])
			if o.Sort == SStr {
				o = app(SBytes, "bytes_of_str", o)
			}
			r := app(SBytes, "bytes_cat", s, o)
			e.Ctx.Assume(st.PC, Eq(app(SInt, "bytes_len", r), Add(app(SInt, "bytes_len", s), app(SInt, "bytes_len", o))))
			return r
		}
		r := e.Ctx.Fresh("bytesapp", SBytes)
		e.Ctx.Assume(st.PC, Eq(app(SInt, "bytes_len", r), Add(app(SInt, "bytes_len", s), Int(int64(len(call.Args)-1)))))
		return r
	}
	if !strings.HasPrefix(s.Sort, "Sl_") {
		e.unsupported(call.Pos(), "append on %s", s.Sort)
		return s
	}
	elemT := t.Underlying().(*types.Slice).Elem()
	if call.Ellipsis.IsValid() {
		o := e.eval(st, call.Args[1])
		if o.Sort != s.Sort {
			e.unsupported(call.Pos(), "append(s, x...) with different sorts")
			return s
		}
		ln := e.S.SlLen(s)
		na := e.Ctx.Fresh("apparr", ArraySort(SInt, e.S.sliceElem(s.Sort)))
		e.Ctx.Assume(st.PC, Term{fmt.Sprintf("(forall ((i Int)) (! (= (select %s i) (ite (< i %s) (select %s i) (select %s (- i %s)))) :pattern ((select %s i))))", na.S, ln.S, e.S.SlArr(s).S, e.S.SlArr(o).S, ln.S, na.S), SBool})
		nl := e.Ctx.Define("applen", Add(ln, e.S.SlLen(o)))
		// appending onto an empty slice yields an element-wise copy of the operand: a rearrangement of it
		e.Ctx.Assume(st.PC, Implies(Eq(ln, Int(0)), e.permPred(na, e.S.SlArr(o), e.S.SlLen(o))))
		// append(nil, empty...) keeps nil
		return e.S.MkSlice(s.Sort, na, nl, And(e.S.SlNil(s), Eq(e.S.SlLen(o), Int(0))))
	}
	arr := e.S.SlArr(s)
	ln := e.S.SlLen(s)
	for i, a := range call.Args[1:] {
		v := e.evalTo(st, a, elemT)
		arr = Store(arr, Add(ln, Int(int64(i))), v)
	}
	n := int64(len(call.Args) - 1)
	if n == 0 {
		return s
	}
	return e.S.MkSlice(s.Sort, e.Ctx.Define("apparr", arr), e.Ctx.Define("applen", Add(ln, Int(n))), False)
}

// ---------------------------------------------------------------------------------------------
// static calls

func fullFuncName(fn *types.Func) string {
	sig := fn.Type().(*types.Signature)
	pkg := ""
	if fn.Pkg() != nil {
		pkg = fn.Pkg().Path()
	}
	if sig.Recv() != nil {
		rt := sig.Recv().Type()
		ptr := ""
		if p, ok := rt.(*types.Pointer); ok {
			rt = p.Elem()
			ptr = "*"
		}
		name := types.TypeString(rt, func(p *types.Package) string { return "" })
		if n, ok := rt.(*types.Named); ok {
			name = n.Obj().Name()
		}
		return fmt.Sprintf("%s.(%s%s).%s", pkg, ptr, name, fn.Name())
	}
	return pkg + "." + fn.Name()
}

func isLogrus(fn *types.Func) bool {
	return fn.Pkg() != nil && strings.HasSuffix(fn.Pkg().Path(), "sirupsen/logrus")
}

// receiverValue evaluates the receiver expression for a call to method fn.
// It returns the value to bind to the receiver parameter and a write-back action (copy-out).
func (e *Exec) receiverValue(st *State, recvExpr ast.Expr, fn *types.Func, sel *types.Selection) (Term, func(*State)) {
	sig := fn.Type().(*types.Signature)
	rt := sig.Recv().Type()
	xt := e.typeOf(recvExpr)
	// promoted methods through embedded fields: the receiver is the embedded field (copy-in / copy-out)
	if sel != nil && len(sel.Index()) > 1 {
		var cur lval
		curT := xt
		idx := sel.Index()
		if isPointer(xt) {
			ref := e.eval(st, recvExpr)
			e.safe(st, "nil", recvExpr, Not(Eq(ref, Int(0))))
			elem := xt.Underlying().(*types.Pointer).Elem()
			f := structOf(elem).Field(idx[0])
			cur = heapLval{e, e.fieldKey(elem, f), ref}
			curT = f.Type()
			idx = idx[1:]
		} else {
			cur = e.lvalOf(st, recvExpr)
		}
		for _, i := range idx[:len(idx)-1] {
			cur, curT = e.stepField(st, recvExpr, cur, curT, i)
		}
		wantPtr := isPointer(rt)
		if isPointer(curT) {
			ref := cur.get(st)
			if wantPtr {
				return ref, nil
			}
			return e.loadStruct(st, ref, curT.Underlying().(*types.Pointer).Elem()), nil
		}
		v := cur.get(st)
		if !wantPtr {
			return v, nil
		}
		if structOf(curT) == nil {
			e.unsupported(recvExpr.Pos(), "promoted method %s on non-struct embedded field", fn.Name())
			return v, nil
		}
		ref := e.allocRef(st, "cell")
		e.storeStructRaw(st, ref, curT, v)
		loc := cur
		ct := curT
		back := func(s *State) { loc.set(s, e.Ctx.Define("cpout", e.keepMemo(ct, e.loadStruct(s, ref, ct), v))) }
		if e.spec > 0 {
			back = nil
		}
		return ref, back
	}
	if isInterface(rt) || isInterface(xt) {
		return e.eval(st, recvExpr), nil
	}
	wantPtr := isPointer(rt)
	havePtr := isPointer(xt)
	switch {
	case wantPtr && havePtr:
		return e.eval(st, recvExpr), nil
	case !wantPtr && !havePtr:
		return e.eval(st, recvExpr), nil
	case !wantPtr && havePtr:
		ref := e.eval(st, recvExpr)
		e.safe(st, "nil", recvExpr, Not(Eq(ref, Int(0))))
		elem := xt.Underlying().(*types.Pointer).Elem()
		if structOf(elem) != nil {
			return e.loadStruct(st, ref, elem), nil
		}
		return Select(e.heapGet(st, e.ptrKey(elem)), ref), nil
	default: // want pointer, have addressable value: copy-in / copy-out
		if id, ok := recvExpr.(*ast.Ident); ok {
			if o := e.objOf(id); o != nil && e.boxed[o] {
				return st.Vars[o], nil
			}
		}
		loc := e.lvalOf(st, recvExpr)
		v := loc.get(st)
		var ref Term
		if structOf(xt) != nil && !isPointer(xt) {
			ref = e.allocRef(st, "cell")
			e.storeStructRaw(st, ref, xt, v)
		} else {
			ref = e.newCell(st, xt, v)
		}
		back := func(s *State) {
			if structOf(xt) != nil {
				loc.set(s, e.Ctx.Define("cpout", e.keepMemo(xt, e.loadStruct(s, ref, xt), v)))
			} else {
				loc.set(s, Select(e.heapGet(s, e.ptrKey(xt)), ref))
			}
		}
		if e.spec > 0 {
			back = nil
		}
		return ref, back
	}
}

func (e *Exec) callFunc(st *State, call *ast.CallExpr, fn *types.Func, recvExpr ast.Expr, sel *types.Selection) []Term {
	if fn.Origin() != nil {
		fn = fn.Origin()
	}
	name := fullFuncName(fn)
	if isLogrus(fn) {
		if e.safety && e.spec == 0 {
			for _, a := range call.Args {
				if !e.hasEffects(a) {
					e.eval(st, a)
				}
			}
			if recvExpr != nil {
				e.eval(st, recvExpr)
			}
		}
		e.Dropped["logrus call"]++
		return e.freshResultsNoAlloc(call)
	}
	// ghost declarations
	if pc := e.P.PC[pkgPathOf(fn)]; pc != nil {
		if pc.GhostFields[fn.Name()] {
			ref := e.eval(st, call.Args[0])
			sig := fn.Type().(*types.Signature)
			k := e.ghostKey(pkgPathOf(fn), strings.TrimPrefix(fn.Name(), "G_"), sig.Results().At(0).Type())
			v := Select(e.heapGet(st, k), ref)
			return []Term{v}
		}
		key := fn.Name()
		if recvExpr != nil {
			key = recvTypeName(fn) + "." + fn.Name()
		}
		if pc.Uninterp[key] {
			return []Term{e.callUninterp(st, call, fn, recvExpr, sel)}
		}
		if pc.Opaque[key] && !(e.Fn.C != nil && (e.Fn.C.Reveal[key] || e.Fn.C.Reveal[shortPkg(pkgPathOf(fn))+"."+key])) {
			// opaque ghost function: an uninterpreted function of its arguments unless revealed
			return []Term{e.callUninterp(st, call, fn, recvExpr, sel)}
		}
	}
	var recv Term
	var back func(*State)
	if recvExpr != nil {
		recv, back = e.receiverValue(st, recvExpr, fn, sel)
	}
	sig := fn.Type().(*types.Signature)
	args := e.evalArgs(st, call, sig)
	if st.Dead() {
		return e.freshResultsNoAlloc(call)
	}
	e.callSiteAsserts(st, call, fn.Name(), recv, args)
	var res []Term
	if h := externs[name]; h != nil && e.P.Funcs[fn] == nil {
		e.Assumed["extern contract: "+name] = true
		res = h(e, st, call, recv, args)
	} else if c := e.P.ContractFor(fn); c != nil && !c.Inline && !(e.spec > 0) {
		res = e.callContract(st, call, fn, c, recv, args)
	} else if fi := e.P.Funcs[fn]; fi != nil && fi.Decl.Body != nil {
		if e.canInline(fi) {
			res = e.inline(st, call, fi, recv, args)
		} else if e.spec > 0 {
			e.unsupported(call.Pos(), "call of %s in a specification (not a single-return function)", name)
			res = e.freshResults(st, call, fn.Name())
		} else {
			// opaque: havoc its computed modset
			ms := e.P.ModSet(fn)
			e.Assumed["opaque callee (no contract, not inlinable): "+name+" — result unconstrained, computed write-set havocked"] = true
			keys := map[string]bool{}
			for k := range ms {
				keys[k] = true
			}
			e.havocKeys(st, keys)
			res = e.freshResults(st, call, fn.Name())
		}
	} else {
		// external function without extern contract
		if sig.Recv() != nil && isInterface(sig.Recv().Type()) {
			// interface method without contract
			ms := e.P.ModSet(fn)
			e.Assumed["interface method without contract: "+name+" — result unconstrained, write-set of all implementations havocked"] = true
			keys := map[string]bool{}
			for k := range ms {
				keys[k] = true
			}
			if e.spec == 0 {
				e.havocKeys(st, keys)
			}
			res = e.freshResults(st, call, fn.Name())
		} else {
			e.Assumed["external function without contract: "+name+" — result unconstrained, no heap effect assumed"] = true
			res = e.freshResults(st, call, fn.Name())
		}
	}
	if back != nil && !st.Dead() {
		back(st)
	}
	return res
}

func pkgPathOf(fn *types.Func) string {
	if fn.Pkg() == nil {
		return ""
	}
	return fn.Pkg().Path()
}

func recvTypeName(fn *types.Func) string {
	sig := fn.Type().(*types.Signature)
	if sig.Recv() == nil {
		return ""
	}
	rt := sig.Recv().Type()
	if p, ok := rt.(*types.Pointer); ok {
		rt = p.Elem()
	}
	if n, ok := rt.(*types.Named); ok {
		return n.Obj().Name()
	}
	return ""
}

func (e *Exec) freshResultsNoAlloc(call *ast.CallExpr) []Term {
	ss, _ := e.resultSorts(call)
	var out []Term
	for _, s := range ss {
		out = append(out, e.Ctx.Fresh("r", s))
	}
	return out
}

func (e *Exec) evalArgs(st *State, call *ast.CallExpr, sig *types.Signature) []Term {
	var args []Term
	np := sig.Params().Len()
	if len(call.Args) == 1 && np > 1 {
		// f(g()) with multi-value g
		return e.evalMulti(st, call.Args[0], np)
	}
	for i, a := range call.Args {
		var pt types.Type
		if sig.Variadic() && i >= np-1 {
			if call.Ellipsis.IsValid() {
				pt = sig.Params().At(np - 1).Type()
			} else {
				pt = sig.Params().At(np - 1).Type().(*types.Slice).Elem()
			}
		} else if i < np {
			pt = sig.Params().At(i).Type()
		}
		args = append(args, e.evalTo(st, a, pt))
	}
	if sig.Variadic() && !call.Ellipsis.IsValid() {
		// pack the variadic tail into a slice value
		vt := sig.Params().At(np - 1).Type()
		fixed := args[:min(np-1, len(args))]
		tail := args[min(np-1, len(args)):]
		if isByteSlice(vt) {
			b := e.Ctx.Fresh("vbytes", SBytes)
			args = append(append([]Term{}, fixed...), b)
		} else {
			srt := e.S.SortOf(vt)
			es := e.S.sliceElem(srt)
			arr := e.S.ConstArray(SInt, es, e.S.Zero(es))
			for i, t := range tail {
				if t.Sort == es {
					arr = Store(arr, Int(int64(i)), t)
				}
			}
			args = append(append([]Term{}, fixed...), e.S.MkSlice(srt, arr, Int(int64(len(tail))), Term{fmt.Sprintf("%v", len(tail) == 0), SBool}))
		}
	}
	return args
}

func (e *Exec) callUninterp(st *State, call *ast.CallExpr, fn *types.Func, recvExpr ast.Expr, sel *types.Selection) Term {
	sig := fn.Type().(*types.Signature)
	var args []Term
	var sorts []string
	if recvExpr != nil {
		v := e.eval(st, recvExpr)
		args = append(args, v)
		sorts = append(sorts, v.Sort)
	}
	for i, a := range call.Args {
		v := e.evalTo(st, a, sig.Params().At(i).Type())
		args = append(args, v)
		sorts = append(sorts, v.Sort)
	}
	out := e.S.SortOf(sig.Results().At(0).Type())
	name := "u_" + shortPkg(pkgPathOf(fn)) + "_" + mangle(recvTypeName(fn)+fn.Name())
	e.Ctx.DeclareFun(name, sorts, out)
	if len(args) == 0 {
		return Term{name, out}
	}
	r := app(out, name, args...)
	if f := e.typeFact(r, sig.Results().At(0).Type()); f.S != "true" {
		e.Ctx.Assume(st.PC, f)
		// applications on quantifier-bound arguments need the range fact as well: state it once for all arguments
		if e.boxAx == nil {
			e.boxAx = map[string]bool{}
		}
		if !e.boxAx["range:"+name] && out == SInt {
			e.boxAx["range:"+name] = true
			var bs, as []string
			for i, srt := range sorts {
				bs = append(bs, fmt.Sprintf("(ua!q%d %s)", i, srt))
				as = append(as, fmt.Sprintf("ua!q%d", i))
			}
			gen := app(out, name)
			gen = Term{"(" + name + " " + strings.Join(as, " ") + ")", out}
			gf := e.typeFact(gen, sig.Results().At(0).Type())
			e.Ctx.Axiom(fmt.Sprintf("(forall (%s) (! %s :pattern (%s)))", strings.Join(bs, " "), gf.S, gen.S))
			e.Ctx.NeedsQuant = true
		}
	}
	return r
}

// canInline: body available, no loops (unless in spec mode where only single-return bodies are allowed),
// not recursive, small.
func (e *Exec) canInline(fi *FuncInfo) bool {
	if fi.Decl.Body == nil {
		return false
	}
	if e.spec > 0 && len(fi.Decl.Body.List) == 1 && isReturn(fi.Decl.Body.List[0]) {
		return true
	}
	if len(e.frames) >= maxInlineDepth {
		return false
	}
	for _, f := range e.frames {
		if f.fi == fi {
			return false
		}
	}
	n := 0
	hasLoop := false
	ast.Inspect(fi.Decl.Body, func(x ast.Node) bool {
		switch x.(type) {
		case *ast.ForStmt, *ast.RangeStmt:
			hasLoop = true
		case *ast.GoStmt:
			hasLoop = true
		case ast.Stmt:
			n++
		}
		return true
	})
	return !hasLoop && n <= maxInlineStmts
}

func (e *Exec) pushFrame(fi *FuncInfo, info *types.Info) *frame {
	f := &frame{fi: fi, info: info, breaks: map[string][]*State{}, conts: map[string][]*State{}, labels: map[ast.Stmt]string{}, callSeen: map[string]int{}}
	e.frames = append(e.frames, f)
	return f
}

func (e *Exec) popFrame() { e.frames = e.frames[:len(e.frames)-1] }

// bindSignature binds receiver, parameters and result slots of decl in st.
func (e *Exec) bindSignature(st *State, f *frame, decl *ast.FuncDecl, typ *ast.FuncType, recv Term, args []Term) {
	info := f.info
	if decl != nil && decl.Recv != nil && len(decl.Recv.List) == 1 && len(decl.Recv.List[0].Names) == 1 {
		if o := info.Defs[decl.Recv.List[0].Names[0]]; o != nil {
			e.declareObj(st, o, recv)
		}
	}
	i := 0
	for _, p := range typ.Params.List {
		if len(p.Names) == 0 {
			i++
			continue
		}
		for _, n := range p.Names {
			if o := info.Defs[n]; o != nil && i < len(args) {
				e.declareObj(st, o, args[i])
			}
			i++
		}
	}
	f.results = nil
	if typ.Results != nil {
		k := 0
		for _, r := range typ.Results.List {
			rt := e.typeOfIn(info, r.Type)
			if len(r.Names) == 0 {
				o := e.newPseudo(fmt.Sprintf("ret%d", k), rt)
				f.results = append(f.results, o)
				st.Vars[o] = e.S.Zero(e.S.SortOf(rt))
				k++
				continue
			}
			for _, n := range r.Names {
				o := info.Defs[n]
				if o == nil { // "_"
					o = e.newPseudo(fmt.Sprintf("ret%d", k), rt)
				}
				f.results = append(f.results, o)
				e.declareObj(st, o, e.S.Zero(e.S.SortOf(rt)))
				k++
			}
		}
	}
}

func (e *Exec) typeOfIn(info *types.Info, x ast.Expr) types.Type {
	if tv, ok := info.Types[x]; ok {
		return tv.Type
	}
	return e.typeOf(x)
}

func (e *Exec) declareObj(st *State, o types.Object, v Term) {
	if e.boxed[o] {
		st.Vars[o] = e.newCell(st, o.Type(), v)
		return
	}
	st.Vars[o] = v
}

// prepareBody records address-taken locals and closures of a function body.
func (e *Exec) prepareBody(info *types.Info, body ast.Node) {
	ast.Inspect(body, func(n ast.Node) bool {
		switch x := n.(type) {
		case *ast.UnaryExpr:
			if x.Op == token.AND {
				if id, ok := x.X.(*ast.Ident); ok {
					if o, ok := info.Uses[id].(*types.Var); ok && !o.IsField() {
						e.boxed[o] = true
					}
				}
			}
		case *ast.AssignStmt:
			if len(x.Lhs) == 1 && len(x.Rhs) == 1 {
				if lit, ok := x.Rhs[0].(*ast.FuncLit); ok {
					if id, ok := x.Lhs[0].(*ast.Ident); ok {
						if o := info.Defs[id]; o != nil {
							e.closures[o] = lit
						}
					}
				}
			}
		}
		return true
	})
}

// finishFrame merges the return states of the current frame, runs deferred calls, and returns the
// final state together with the result values.
func (e *Exec) finishFrame(fallthroughSt *State) (*State, []Term) {
	f := e.fr()
	outs := f.rets
	if !fallthroughSt.Dead() {
		outs = append(outs, fallthroughSt)
	}
	m := e.Merge(outs...)
	if m.Dead() {
		return nil, nil
	}
	for i := len(f.defers) - 1; i >= 0; i-- {
		d := f.defers[i]
		var before *State
		var armed Term
		if d.armed != nil {
			if a, ok := m.Vars[d.armed]; ok && a.S != "true" {
				armed = a
				before = m.Clone()
			}
		}
		if lit, ok := d.call.Fun.(*ast.FuncLit); ok {
			saved := f.rets
			f.rets = nil
			out := e.execBlock(m, lit.Body.List)
			m = e.Merge(append(f.rets, out)...)
			f.rets = saved
		} else {
			e.evalCall(m, d.call)
		}
		if before != nil {
			// the deferred call ran only on the paths that had executed its defer statement
			m = e.Merge(e.withPC(m, armed), e.withPC(before, Not(armed)))
		}
		if m.Dead() {
			return nil, nil
		}
	}
	var res []Term
	for _, r := range f.results {
		res = append(res, varLval{e, r}.get(m))
	}
	return m, res
}

func (e *Exec) inline(st *State, call *ast.CallExpr, fi *FuncInfo, recv Term, args []Term) []Term {
	if e.spec > 0 && len(fi.Decl.Body.List) == 1 && isReturn(fi.Decl.Body.List[0]) {
		// single return expression evaluated in the current (specification) state
		f := e.pushFrame(fi, fi.Pkg.TypesInfo)
		defer e.popFrame()
		sub := st.Clone()
		// compound argument terms are named: a ghost function's body then has the same shape wherever it is
		// expanded (fold functions of __count/__sumseq lambdas are keyed by the shape of their body)
		named := make([]Term, len(args))
		for i, a := range args {
			named[i] = e.Ctx.Name("ga", a)
		}
		args = named
		if recv.S != "" {
			recv = e.Ctx.Name("ga", recv)
		}
		e.bindSignature(sub, f, fi.Decl, fi.Decl.Type, recv, args)
		ret := fi.Decl.Body.List[0].(*ast.ReturnStmt)
		var out []Term
		for _, r := range ret.Results {
			out = append(out, e.eval(sub, r))
		}
		return out
	}
	e.prepareBody(fi.Pkg.TypesInfo, fi.Decl.Body)
	f := e.pushFrame(fi, fi.Pkg.TypesInfo)
	e.bindSignature(st, f, fi.Decl, fi.Decl.Type, recv, args)
	savedMode := e.mode
	out := e.execBlock(st, fi.Decl.Body.List)
	m, res := e.finishFrame(out)
	e.mode = savedMode
	e.popFrame()
	if m.Dead() {
		st.PC = False
		return e.freshResultsNoAlloc(call)
	}
	*st = *m
	return res
}

func (e *Exec) inlineClosure(st *State, call *ast.CallExpr, lit *ast.FuncLit) []Term {
	return e.inlineClosureArgs(st, call, lit, nil)
}

// inlineClosureArgs expands a closure call; args != nil means the arguments have been evaluated already.
func (e *Exec) inlineClosureArgs(st *State, call *ast.CallExpr, lit *ast.FuncLit, args []Term) []Term {
	if len(e.frames) >= maxInlineDepth {
		return e.callUnknown(st, call, "closure too deep")
	}
	sig := e.typeOf(lit).(*types.Signature)
	if args == nil {
		args = e.evalArgs(st, call, sig)
	}
	cur := e.fr()
	f := e.pushFrame(cur.fi, cur.info)
	f.closure = true
	e.bindSignature(st, f, nil, lit.Type, Term{}, args)
	out := e.execBlock(st, lit.Body.List)
	m, res := e.finishFrame(out)
	e.popFrame()
	if m.Dead() {
		st.PC = False
		return e.freshResultsNoAlloc(call)
	}
	*st = *m
	return res
}

func isReturn(s ast.Stmt) bool {
	_, ok := s.(*ast.ReturnStmt)
	return ok
}
