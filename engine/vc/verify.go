package vc

import (
	"os"
	"path/filepath"
	"fmt"
	"go/ast"
	"go/token"
	"go/types"
	"sort"
	"strings"
)

// FuncResult is the outcome of generating obligations for one function.
type FuncResult struct {
	Func        string
	Key         string
	Pkg         string
	IntMode     string
	Safety      bool
	Obligations []*Obligation
	Unsupported []string
	Assumed     []string
	Dropped     map[string]int
	Contracts   []string // callee contracts used
	Opaque      bool     // contract assumed, body not verified
	Trusted     string
}

func NewProgramState(p *Program) {
	p.checked = map[*Clause]bool{}
	p.checkErr = map[*Clause]error{}
	p.CInfo = &types.Info{Types: map[ast.Expr]types.TypeAndValue{}, Uses: map[*ast.Ident]types.Object{}, Defs: map[*ast.Ident]types.Object{}, Selections: map[*ast.SelectorExpr]*types.Selection{}, Instances: map[*ast.Ident]types.Instance{}, Implicits: map[ast.Node]types.Object{}, Scopes: map[ast.Node]*types.Scope{}}
	p.desigCache = map[string]*Clause{}
	p.contractKeyCache = map[*Contract]map[string]bool{}
}

func (p *Program) newExec(fi *FuncInfo) *Exec {
	ctx := NewCtx()
	e := &Exec{P: p, Ctx: ctx, S: NewSorts(ctx), Fn: fi, mode: "ideal", keySort: map[string]string{}, touched: map[string]bool{}, boxed: map[types.Object]bool{},
		cinfo: p.CInfo, bound: map[types.Object]Term{}, Assumed: map[string]bool{}, dynIDs: map[string]int{}, safeN: map[string]int{}, Dropped: map[string]int{},
		cntDefs: map[string]string{}, closures: map[types.Object]*ast.FuncLit{}, loopsUsed: map[int]bool{}, UsedContracts: map[string]bool{}, loopOrdOf: map[ast.Stmt]int{}}
	if fi.C != nil {
		e.mode = fi.C.IntMode
		e.readKeys = map[string]bool{}
		e.safety = fi.C.Safety || os.Getenv("GOVC_FORCE_SAFETY") != "" // the latter: exploratory no-panic sweep (govc dev only)
	}
	return e
}

// loopsInOrder lists the loops of body in source order.
func loopsInOrder(body ast.Node) []ast.Stmt {
	var out []ast.Stmt
	ast.Inspect(body, func(n ast.Node) bool {
		switch s := n.(type) {
		case *ast.ForStmt:
			out = append(out, s)
		case *ast.RangeStmt:
			out = append(out, s)
		}
		return true
	})
	return out
}

func loopBodyPos(s ast.Stmt) token.Pos {
	switch l := s.(type) {
	case *ast.ForStmt:
		return l.Body.Lbrace + 1
	case *ast.RangeStmt:
		return l.Body.Lbrace + 1
	}
	return s.Pos()
}

func loopHeader(fset *token.FileSet, s ast.Stmt) string {
	switch l := s.(type) {
	case *ast.RangeStmt:
		return "range " + exprText(fset, l.X)
	case *ast.ForStmt:
		if l.Cond != nil {
			return "for " + exprText(fset, l.Cond)
		}
	}
	return "for"
}

// VerifyFunc generates all obligations of fi (which must have a contract).
func (p *Program) VerifyFunc(fi *FuncInfo) (res *FuncResult) {
	c := fi.C
	res = &FuncResult{Func: fi.FullName(), Key: fi.Key, Pkg: fi.Pkg.PkgPath, IntMode: c.IntMode, Safety: c.Safety, Dropped: map[string]int{}}
	if c.Opaque {
		res.Opaque = true
		res.Trusted = c.Trusted
		return res
	}
	e := p.newExec(fi)
	defer func() {
		if r := recover(); r != nil {
			res.Unsupported = append(res.Unsupported, fmt.Sprintf("engine panic: %v", r))
			res.Obligations = e.Ctx.Oblig
		}
	}()
	sc, err := p.scopeFor(c)
	if err != nil {
		res.Unsupported = append(res.Unsupported, err.Error())
		return res
	}
	// type-check clauses
	bad := false
	check := func(cl *Clause, pos token.Pos) {
		if err := p.CheckClause(c, cl, pos, sc); err != nil {
			res.Unsupported = append(res.Unsupported, err.Error())
			bad = true
		}
	}
	for _, cl := range c.Requires {
		check(cl, fi.Decl.Body.Lbrace+1)
	}
	for _, cl := range c.Assumes {
		check(cl, fi.Decl.Body.Lbrace+1)
	}
	for _, cl := range c.Ensures {
		check(cl, sc.pos)
	}
	for _, cl := range c.Aux {
		check(cl, sc.pos)
	}
	loops := loopsInOrder(fi.Decl.Body)
	for i, l := range loops {
		e.loopOrdOf[l] = i + 1
	}
	for ord, ls := range c.Loops {
		if ord < 1 || ord > len(loops) {
			res.Unsupported = append(res.Unsupported, fmt.Sprintf("%s:%d: contract names loop %d but %s has %d loops (hint-mismatch)", c.File, c.Line, ord, fi.Key, len(loops)))
			bad = true
			continue
		}
		for _, cl := range ls.Invariants {
			check(cl, loopBodyPos(loops[ord-1]))
		}
		if ls.Decreases != nil {
			check(ls.Decreases, loopBodyPos(loops[ord-1]))
		}
	}
	for _, ca := range c.Calls {
		pos := findCallPos(fi, ca)
		if !pos.IsValid() {
			if ca.Ordinal > 0 && !ca.Assume {
				// the n-th call this rule is about no longer exists: reported at the end as a failed obligation
				// named after the rule
				continue
			}
			res.Unsupported = append(res.Unsupported, fmt.Sprintf("%s: call assertion [%s]: no call of %s in %s (hint-mismatch)", ca.Clause.Line, ca.Clause.Label, ca.Callee, fi.Key))
			bad = true
			continue
		}
		check(ca.Clause, pos)
	}
	if bad {
		return res
	}
	// entry state
	e.prepareBody(fi.Pkg.TypesInfo, fi.Decl.Body)
	e.computeTaint(fi)
	e.computeBorrowed(fi)
	e.loopVarAddressObligations(fi)
	e.keepVar = map[types.Object]bool{}
	for _, cl := range append(append([]*Clause{}, c.Ensures...), c.Aux...) {
		ast.Inspect(cl.Expr, func(n ast.Node) bool {
			if id, ok := n.(*ast.Ident); ok {
				if o, ok := p.CInfo.Uses[id].(*types.Var); ok && !o.IsField() && o.Pos() > fi.Decl.Body.Lbrace && o.Pos() < fi.Decl.Body.Rbrace {
					e.keepVar[o] = true
				}
			}
			return true
		})
	}
	f := e.pushFrame(fi, fi.Pkg.TypesInfo)
	alloc0 := Term{"alloc0", SInt}
	e.Ctx.DeclareConst("alloc0", SInt)
	e.Ctx.Axiom("(>= alloc0 0)")
	st := &State{PC: True, Vars: map[types.Object]Term{}, Heap: map[string]Term{}, Alloc: alloc0}
	var recv Term
	var args []Term
	mk := func(name string, t types.Type) Term {
		v := Term{"in_" + sanitize(name), e.S.SortOf(t)}
		e.Ctx.DeclareConst(v.S, v.Sort)
		e.assumeType(st, v, t)
		return v
	}
	if fi.Decl.Recv != nil && len(fi.Decl.Recv.List) == 1 {
		rt := e.typeOfIn(fi.Pkg.TypesInfo, fi.Decl.Recv.List[0].Type)
		name := "recv"
		if len(fi.Decl.Recv.List[0].Names) == 1 {
			name = fi.Decl.Recv.List[0].Names[0].Name
		}
		recv = mk(name, rt)
	}
	k := 0
	for _, pl := range fi.Decl.Type.Params.List {
		pt := e.typeOfIn(fi.Pkg.TypesInfo, pl.Type)
		if _, isEll := pl.Type.(*ast.Ellipsis); isEll {
			pt = types.NewSlice(e.typeOfIn(fi.Pkg.TypesInfo, pl.Type.(*ast.Ellipsis).Elt))
		}
		if len(pl.Names) == 0 {
			args = append(args, mk(fmt.Sprintf("arg%d", k), pt))
			k++
		}
		for _, n := range pl.Names {
			args = append(args, mk(n.Name, pt))
			k++
		}
	}
	e.bindSignature(st, f, fi.Decl, fi.Decl.Type, recv, args)
	plan := e.replayPlan(fi, recv, args)
	defer func() {
		for _, o := range e.Ctx.Oblig {
			if o.Replay == nil {
				o.Replay = plan
			}
		}
	}()
	e.entryParams = map[types.Object]Term{}
	for o, v := range st.Vars {
		e.entryParams[o] = v
	}
	e.initCallHistory(st, fi)
	e.capObj = map[string]types.Object{}
	for _, ca := range c.Calls {
		if ca.Capture {
			if t := p.CInfo.Types[ca.Clause.Expr].Type; t != nil {
				o := e.newPseudo("cap_"+ca.Clause.Label, t)
				e.capObj[ca.Clause.Label] = o
				st.Vars[o] = e.S.Zero(e.S.SortOf(t))
			}
		}
	}
	e.old = st.Clone()
	// requires
	for _, r := range c.Requires {
		t := e.evalSpec(st, r)
		e.assume(st, t)
	}
	for _, r := range c.Assumes {
		t := e.evalSpec(st, r)
		e.assume(st, t)
		e.Assumed["entry assumption ["+r.Label+"] of "+res.Func+" (not required from callers): "+r.Src] = true
	}
	e.old = st.Clone()
	e.canary(st, "requires", fi.Decl.Pos())
	// body
	out := e.execBlock(st, fi.Decl.Body.List)
	final, results := e.finishFrame(out)
	if final.Dead() {
		e.Ctx.AddObligation(res.Func, "vacuity", res.Func+"/vacuity/returns", True, False, e.pos(fi.Decl.Pos())).MustFail = true
	} else {
		e.canary(final, "exit", fi.Decl.Body.Rbrace)
		// every mutex the function locks is released again on every path that returns (locks are otherwise not
		// modelled: execution is sequential; a lock still held at return blocks every later handler)
		{
			var texts []string
			for t := range e.lockObj {
				texts = append(texts, t)
			}
			sortStrings(texts)
			for _, t := range texts {
				if v, ok := final.Vars[e.lockObj[t]]; ok {
					e.Ctx.AddObligation(res.Func, "lock", fmt.Sprintf("%s/lock/released/%s", res.Func, t), final.PC, Eq(v, Int(0)), e.pos(fi.Decl.Body.Rbrace))
				}
			}
		}
		// ghost assignments of the contract (`ghostset`), executed at exit
		if len(c.GhostSets) > 0 {
			gpost := final.Clone()
			for o, v := range e.entryParams {
				if _, isParam := o.(*types.Var); isParam && !e.boxed[o] && !isResult(f, o) {
					gpost.Vars[o] = v
				}
			}
			e.specRes = results
			e.specOld = e.old
			for _, gs := range c.GhostSets {
				if err := p.CheckClause(c, gs.Value, sc.pos, sc); err != nil {
					res.Unsupported = append(res.Unsupported, err.Error())
					continue
				}
				ds := e.designators(gpost, c, gs.Target, sc)
				if len(ds) != 1 || ds[0].whole || ds[0].ref.S == "" {
					res.Unsupported = append(res.Unsupported, fmt.Sprintf("%s: ghostset target %q is not a single ghost location", gs.Value.Line, gs.Target))
					continue
				}
				cur := Select(e.heapGet(final, ds[0].key), ds[0].ref)
				if gs.SuchThat {
					nv := e.Ctx.Fresh("gchoice", cur.Sort)
					cond := True
					if gs.When != nil {
						if err := p.CheckClause(c, gs.When, sc.pos, sc); err != nil {
							res.Unsupported = append(res.Unsupported, err.Error())
							continue
						}
						cond = e.evalSpec(gpost, gs.When)
					}
					upd := Store(e.heapGet(final, ds[0].key), ds[0].ref, Ite(cond, nv, cur))
					e.heapSet(final, ds[0].key, upd)
					e.heapSet(gpost, ds[0].key, upd)
					pred := e.evalSpec(gpost, gs.Value)
					e.assume(final, Implies(cond, pred))
					e.assume(gpost, Implies(cond, pred))
					e.Assumed["ghost choice (ghostset "+gs.Target+" :| …): existence of a value satisfying the predicate is not checked"] = true
					continue
				}
				e.spec++
				val := e.eval(gpost.Clone(), gs.Value.Expr)
				e.spec--
				if gs.When != nil {
					if err := p.CheckClause(c, gs.When, sc.pos, sc); err != nil {
						res.Unsupported = append(res.Unsupported, err.Error())
						continue
					}
					val = Ite(e.evalSpec(gpost, gs.When), val, cur)
				}
				if val.Sort != cur.Sort {
					res.Unsupported = append(res.Unsupported, fmt.Sprintf("%s: ghostset %s: value has sort %s, location %s", gs.Value.Line, gs.Target, val.Sort, cur.Sort))
					continue
				}
				nv := Store(e.heapGet(final, ds[0].key), ds[0].ref, val)
				e.heapSet(final, ds[0].key, nv)
				e.heapSet(gpost, ds[0].key, nv)
			}
		}
		// postconditions: parameters denote their entry values
		post := final.Clone()
		for o, v := range e.entryParams {
			if _, isParam := o.(*types.Var); isParam && !e.boxed[o] && !isResult(f, o) {
				post.Vars[o] = v
			}
		}
		if plan != nil && len(results) == len(plan.results0) {
			for i, r := range results {
				plan.results = append(plan.results, rparam{fmt.Sprintf("r%d", i), plan.results0[i], r})
			}
		}
		e.specRes = results
		e.specOld = e.old
		for _, en := range c.Ensures {
			t := e.evalSpec(post, en)
			o := e.Ctx.AddObligation(res.Func, "post", fmt.Sprintf("%s/post/%s", res.Func, en.Label), post.PC, t, en.Line)
			o.SetParts(e.evalSpecParts(post, en))
		}
		for _, en := range c.Aux {
			t := e.evalSpec(post, en)
			e.Ctx.AddObligation(res.Func, "aux", fmt.Sprintf("%s/aux/%s", res.Func, en.Label), post.PC, t, en.Line)
		}
		if c.ModGiven {
			e.frameObligations(final, c, sc)
		}
	}
	// rely clauses: closed (quantified objects only), reflexive and transitive
	for _, rl := range c.Relies {
		if free := freeVarsOfClause(p.CInfo, rl.Expr); len(free) > 0 {
			res.Unsupported = append(res.Unsupported, fmt.Sprintf("%s: rely clause [%s] mentions %s: only quantified variables are allowed (it is assumed in other functions)", rl.Line, rl.Label, strings.Join(free, ", ")))
			continue
		}
		mk := func() *State {
			return &State{PC: True, Vars: map[types.Object]Term{}, Heap: map[string]Term{}, Alloc: e.Ctx.Fresh("alloc", SInt), HavocAll: true, HavocID: e.nextHavocID()}
		}
		h0, h1, h2 := mk(), mk(), mk()
		rel := func(a, b *State) Term {
			saved := e.specOld
			e.specOld = a
			t := e.evalSpec(b, rl)
			e.specOld = saved
			return t
		}
		e.Ctx.AddObligation(res.Func, "lemma", fmt.Sprintf("%s/lemma/%s/reflexive", res.Func, rl.Label), True, rel(h0, h0), rl.Line)
		t01, t12, t02 := rel(h0, h1), rel(h1, h2), rel(h0, h2)
		e.Ctx.AddObligation(res.Func, "lemma", fmt.Sprintf("%s/lemma/%s/transitive", res.Func, rl.Label), True, Implies(And(t01, t12), t02), rl.Line)
	}
	// read frame: fields the code must not read
	if os.Getenv("GOVC_READS") != "" {
		for k := range e.readKeys {
			fmt.Println("   read:", k)
		}
	}
	for _, nr := range c.NoRead {
		hit := ""
		for k := range e.readKeys {
			if strings.HasPrefix(k, "F:") && strings.HasSuffix(k, nr) {
				if rest := strings.TrimSuffix(k, nr); rest == "F:" || strings.HasSuffix(rest, "_") || strings.HasSuffix(rest, ".") {
					hit = k
				}
			}
		}
		goal := True
		if hit != "" {
			goal = False
		}
		e.Ctx.AddObligation(res.Func, "noread", fmt.Sprintf("%s/noread/%s", res.Func, nr), True, goal, fmt.Sprintf("%s:%d", c.File, c.Line))
	}
	e.popFrame()
	for ord := range c.Loops {
		if !e.loopsUsed[ord] {
			res.Unsupported = append(res.Unsupported, fmt.Sprintf("loop %d of %s was never reached by the symbolic execution (contract not applied)", ord, fi.Key))
		}
	}
	for _, ca := range c.Calls {
		if !e.callAsserted[ca] {
			if ca.Assume || ca.Ordinal == 0 {
				res.Unsupported = append(res.Unsupported, fmt.Sprintf("call assertion [%s] on %s was never reached (hint-mismatch)", ca.Clause.Label, ca.Callee))
				continue
			}
			// the contract says what the n-th call of the callee must satisfy; the function no longer makes that call:
			// the rule attached to it is not established (a failed obligation named after the rule, no model)
			e.Ctx.AddObligation(res.Func, "assert", fmt.Sprintf("%s/assert/%s", res.Func, ca.Clause.Label), True, False, ca.Clause.Line)
		}
	}
	p.buildModsets()
	if len(c.CallbackMods) > 0 || len(c.Registers) > 0 || len(p.cbsets[fi.Obj]) > 0 {
		if p.cbNotes == nil {
			p.cbNotes = append([]string{}, p.CallbackFrameNotes()...)
		}
		// a registered callback implementation may write, outside its own package, only what the `callback` clause
		// of the invoking function allows (that clause is what the invoker's proof assumed)
		if !p.cbRegDone {
			p.cbRegDone = true
			p.cbRegNotes = p.CallbackRegistrationNotes()
		}
		for _, n := range p.cbRegNotes {
			hit := false
			for cb := range p.cbsets[fi.Obj] {
				if strings.Contains(n, "callback "+cb+" ") {
					hit = true
				}
			}
			for _, r := range c.Registers {
				if strings.Contains(n, "callback "+r+" ") {
					hit = true
				}
			}
			if hit {
				res.Unsupported = append(res.Unsupported, n)
			}
		}
		nbad := 0
		for _, n := range p.cbNotes {
			f := strings.Split(n, "|")
			if len(f) == 4 && f[0] == fullFuncName(fi.Obj) {
				nbad++
				e.Ctx.AddObligation(res.Func, "frame", fmt.Sprintf("%s/frame/callback/%s/%s", res.Func, f[1], frameLabel(f[2])), True, False, fmt.Sprintf("%s:%d", c.File, c.Line))
			}
		}
		if nbad == 0 {
			for _, r := range c.Registers {
				e.Ctx.AddObligation(res.Func, "frame", fmt.Sprintf("%s/frame/callback/%s", res.Func, r), True, True, fmt.Sprintf("%s:%d", c.File, c.Line))
			}
		}
	}
	e.addAxioms(res)
	for n := range p.notes {
		res.Unsupported = append(res.Unsupported, n)
	}
	res.Obligations = e.Ctx.Oblig
	res.Unsupported = append(res.Unsupported, e.Unsup...)
	for a := range e.Assumed {
		res.Assumed = append(res.Assumed, a)
	}
	sort.Strings(res.Assumed)
	res.Dropped = e.Dropped
	for k := range e.UsedContracts {
		res.Contracts = append(res.Contracts, k)
	}
	sort.Strings(res.Contracts)
	if e.mode == "ideal" {
		res.Assumed = append(res.Assumed, "machine integers treated as mathematical integers in "+res.Func)
	}
	if !e.safety {
		res.Assumed = append(res.Assumed, "panic-freedom of "+res.Func+" not claimed: executions that panic are outside its contract")
	}
	return res
}

func isResult(f *frame, o types.Object) bool {
	for _, r := range f.results {
		if r == o {
			return true
		}
	}
	return false
}

func findCallPos(fi *FuncInfo, ca *CallAssert) token.Pos {
	var pos token.Pos
	n := 0
	ast.Inspect(fi.Decl.Body, func(x ast.Node) bool {
		if snd, ok := x.(*ast.SendStmt); ok && ca.Callee == "chan<-" {
			n++
			if (ca.Ordinal == 0 && !pos.IsValid()) || n == ca.Ordinal {
				pos = snd.Pos()
			}
			return true
		}
		c, ok := x.(*ast.CallExpr)
		if !ok {
			return true
		}
		name := ""
		switch f := c.Fun.(type) {
		case *ast.Ident:
			name = f.Name
		case *ast.SelectorExpr:
			name = f.Sel.Name
		}
		if name == ca.Callee {
			n++
			if (ca.Ordinal == 0 && !pos.IsValid()) || n == ca.Ordinal {
				pos = c.Pos()
			}
		}
		return true
	})
	return pos
}

// frameObligations: every location that existed at entry and is not named by `modifies` is unchanged.
func (e *Exec) frameObligations(final *State, c *Contract, sc *clauseScope) {
	byKey := map[string][]designator{}
	for _, m := range c.Modifies {
		for _, d := range e.designators(e.old, c, m, sc) {
			byKey[d.key] = append(byKey[d.key], d)
		}
	}
	var keys []string
	if final.HavocAll {
		for k := range e.keySort {
			keys = append(keys, k)
		}
	} else {
		for k := range e.touched {
			keys = append(keys, k)
		}
		for k := range final.Unknown {
			if _, ok := e.keySort[k]; ok {
				keys = append(keys, k)
			}
		}
	}
	sort.Strings(keys)
	seen := map[string]bool{}
	for _, k := range keys {
		if seen[k] {
			continue
		}
		seen[k] = true
		whole := false
		for _, d := range byKey[k] {
			if d.whole {
				whole = true
			}
		}
		if whole || len(byKey["*"]) > 0 || e.P.Memo[k] != nil || e.privateElsewhere(k) {
			continue
		}
		now := e.heapGet(final, k)
		before := e.heapGet(e.old, k)
		if now.S == before.S {
			continue
		}
		o := e.Ctx.Fresh("fo", SInt)
		hyp := []Term{Ge(o, Int(0)), Le(o, e.old.Alloc)}
		for _, d := range byKey[k] {
			hyp = append(hyp, Not(Eq(o, d.ref)))
		}
		goal := Implies(And(hyp...), Eq(Select(now, o), Select(before, o)))
		e.Ctx.AddObligation(e.Fn.FullName(), "frame", fmt.Sprintf("%s/frame/%s", e.Fn.FullName(), frameLabel(k)), final.PC, goal, c.File)
	}
}

func frameLabel(k string) string {
	return strings.NewReplacer("F:", "", "MD:", "mapdom:", "MV:", "mapval:", "ML:", "maplen:", "P:", "ptr:", "G:", "ghost:").Replace(k)
}

// addAxioms adds the package-level axioms (assumed properties of library functions, listed in the
// evidence) of every package with contracts. Axioms are global: they are part of every obligation.
func (e *Exec) addAxioms(res *FuncResult) {
	var pkgs []string
	for p := range e.P.PC {
		pkgs = append(pkgs, p)
	}
	sort.Strings(pkgs)
	for _, pp := range pkgs {
		pc := e.P.PC[pp]
		pkg := e.P.Pkgs[pp]
		if pkg == nil {
			continue
		}
		for _, ax := range pc.Axioms {
			sc := &clauseScope{pkg: pkg.Types, pos: token.NoPos, info: pkg.TypesInfo}
			if err := e.P.CheckClause(nil, ax, token.NoPos, sc); err != nil {
				res.Unsupported = append(res.Unsupported, err.Error())
				continue
			}
			st := &State{PC: True, Vars: map[types.Object]Term{}, Heap: map[string]Term{}, Alloc: Term{"alloc0", SInt}}
			e.frames = append(e.frames, &frame{info: pkg.TypesInfo, breaks: map[string][]*State{}, conts: map[string][]*State{}, labels: map[ast.Stmt]string{}, callSeen: map[string]int{}})
			nf := len(e.Ctx.facts)
			t := e.evalSpec(st, ax)
			e.frames = e.frames[:len(e.frames)-1]
			// facts produced while evaluating the axiom are definitions of its subterms: keep them global
			for _, f := range e.Ctx.facts[nf:] {
				e.Ctx.axioms = append(e.Ctx.axioms, f)
			}
			e.Ctx.facts = e.Ctx.facts[:nf]
			e.Ctx.Axiom(t.S)
			e.Assumed["axiom ["+ax.Label+"] of package "+shortPkg(pp)+": "+ax.Src] = true
		}
	}
}

// initCallHistory creates the ghost call-history variables (__called / __lastret) for every callee name
// that occurs in the body; they must exist from the start so that state merging keeps them.
func (e *Exec) initCallHistory(st *State, fi *FuncInfo) {
	e.calledObj = map[string]types.Object{}
	e.lastRetObj = map[string][]types.Object{}
	e.lockObj = map[string]types.Object{}
	ast.Inspect(fi.Decl.Body, func(n ast.Node) bool {
		c, ok := n.(*ast.CallExpr)
		if !ok {
			return true
		}
		if text, d := lockCall(fi.Pkg.TypesInfo, c); d > 0 && e.lockObj[text] == nil {
			o := e.newPseudo("lockdepth_"+sanitize(text), types.Typ[types.Int])
			e.lockObj[text] = o
			st.Vars[o] = Int(0)
		}
		return true
	})
	e.callAsserted = map[*CallAssert]bool{}
	info := fi.Pkg.TypesInfo
	ast.Inspect(fi.Decl.Body, func(n ast.Node) bool {
		if _, isSend := n.(*ast.SendStmt); isSend && e.calledObj["chan<-"] == nil {
			// __called("chan<-"): a send statement was executed
			o := e.newPseudo("called_send", types.Typ[types.Bool])
			e.calledObj["chan<-"] = o
			st.Vars[o] = False
			return true
		}
		c, ok := n.(*ast.CallExpr)
		if !ok {
			return true
		}
		name := ""
		switch f := c.Fun.(type) {
		case *ast.Ident:
			name = f.Name
		case *ast.SelectorExpr:
			name = f.Sel.Name
		}
		if name == "" || e.calledObj[name] != nil {
			return true
		}
		if tv, ok := info.Types[c.Fun]; ok && tv.IsType() {
			return true
		}
		o := e.newPseudo("called_"+name, types.Typ[types.Bool])
		e.calledObj[name] = o
		st.Vars[o] = False
		if t := info.Types[c].Type; t != nil {
			var ts []types.Type
			if tup, ok := t.(*types.Tuple); ok {
				for i := 0; i < tup.Len(); i++ {
					ts = append(ts, tup.At(i).Type())
				}
			} else {
				ts = []types.Type{t}
			}
			for i, rt := range ts {
				ro := e.newPseudo(fmt.Sprintf("lastret_%s_%d", name, i), rt)
				e.lastRetObj[name] = append(e.lastRetObj[name], ro)
				st.Vars[ro] = e.S.Zero(e.S.SortOf(rt))
			}
		}
		return true
	})
}

// freeVarsOfClause: variables a clause mentions other than those bound inside it (quantifiers desugar to
// function literals) - parameters, receivers, results, locals.
func freeVarsOfClause(info *types.Info, x ast.Expr) []string {
	seen := map[string]bool{}
	bound := map[types.Object]bool{}
	ast.Inspect(x, func(n ast.Node) bool {
		if id, ok := n.(*ast.Ident); ok {
			if o := info.Defs[id]; o != nil {
				bound[o] = true
			}
		}
		return true
	})
	var out []string
	ast.Inspect(x, func(n ast.Node) bool {
		id, ok := n.(*ast.Ident)
		if !ok {
			return true
		}
		v, ok := info.Uses[id].(*types.Var)
		if !ok || v.IsField() {
			return true
		}
		if bound[v] {
			return true // bound inside the clause
		}
		if v.Parent() != nil && v.Parent().Parent() == types.Universe {
			return true // package-level variable
		}
		if !seen[v.Name()] {
			seen[v.Name()] = true
			out = append(out, v.Name())
		}
		return true
	})
	return out
}

// replayPlan records what a generic counterexample replay of this function needs.
func (e *Exec) replayPlan(fi *FuncInfo, recv Term, args []Term) *ReplayPlan {
	sig, ok := fi.Obj.Type().(*types.Signature)
	if !ok || fi.Pkg == nil || fi.Pkg.Types == nil {
		return nil
	}
	own := fi.Pkg.Types
	pl := &ReplayPlan{pkgPath: fi.Pkg.PkgPath, pkgName: own.Name(), fn: fi.Decl.Name.Name, sorts: e.S, variadic: sig.Variadic(), imports: map[string]string{}}
	pl.pkgDir = filepath.Dir(fi.Pkg.Fset.Position(fi.Decl.Pos()).Filename)
	pl.qual = func(p *types.Package) string {
		if p == own {
			return ""
		}
		pl.imports[p.Path()] = p.Name()
		return p.Name()
	}
	ctx := e.Ctx
	pl.consts = func(name string) bool { _, ok := ctx.consts[name]; return ok }
	if sig.Recv() != nil {
		pl.recv = &rparam{"recv", sig.Recv().Type(), recv}
	}
	if sig.Params().Len() != len(args) {
		return nil
	}
	for i := 0; i < sig.Params().Len(); i++ {
		pl.params = append(pl.params, rparam{sig.Params().At(i).Name(), sig.Params().At(i).Type(), args[i]})
	}
	for i := 0; i < sig.Results().Len(); i++ {
		pl.results0 = append(pl.results0, sig.Results().At(i).Type())
	}
	return pl
}


// privateElsewhere: k belongs to the encapsulated representation of another package (`//@ private`): the verified
// function can neither name nor touch it, so it has no frame obligation for it.
func (e *Exec) privateElsewhere(k string) bool {
	owner := e.P.Private[frameLabel(k)]
	return owner != "" && e.Fn != nil && e.Fn.Pkg != nil && owner != e.Fn.Pkg.PkgPath
}


// lockCall: c is X.Lock()/X.RLock() (+1) or X.Unlock()/X.RUnlock() (-1) of a sync.Mutex / sync.RWMutex; returns the
// text of X and the direction (0: not a lock operation).
func lockCall(info *types.Info, c *ast.CallExpr) (string, int) {
	sel, ok := c.Fun.(*ast.SelectorExpr)
	if !ok {
		return "", 0
	}
	fn, ok := info.Uses[sel.Sel].(*types.Func)
	if !ok || fn.Pkg() == nil || fn.Pkg().Path() != "sync" {
		return "", 0
	}
	switch fn.Name() {
	case "Lock", "RLock":
		return types.ExprString(sel.X), 1
	case "Unlock", "RUnlock":
		return types.ExprString(sel.X), -1
	}
	return "", 0
}
